#!/venv/bin/python
"""Regenerate MANIFEST.json from vf/registry.py (single source of truth)."""
import json, os, sys
sys.path.insert(0, os.path.dirname(os.path.dirname(os.path.abspath(__file__))))
from vf import registry
m = registry.manifest()
with open(os.path.join(os.path.dirname(os.path.dirname(os.path.abspath(__file__))), 'MANIFEST.json'), 'w') as f:
    json.dump(m, f, indent=1)
    f.write('\n')
try:
    import jsonschema
    jsonschema.validate(m, json.load(open('/root/.vp/MANIFEST.schema.json')))
    print('MANIFEST valid;', len(m['checks']), 'checks,', len(m['not_applicable']), 'not claimed')
except ImportError:
    print('written (jsonschema not available for validation)')
