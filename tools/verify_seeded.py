#!/venv/bin/python
"""Verify a seeded change and run the property's check against it.
usage: tools/verify_seeded.py <dir with patch.diff + demo.py> <property id> [tier]
Creates a scratch worktree of /repo HEAD under /tmp, never touches /repo's working tree."""
import json, os, shutil, subprocess, sys, tempfile
args = [a for a in sys.argv[1:] if not a.startswith('--')]
check_only = '--check-only' in sys.argv
src, prop = os.path.abspath(args[0]), args[1]
tier = args[2] if len(args) > 2 else 'quick'
base = tempfile.mkdtemp(prefix='vf_seed_')
wt = os.path.join(base, 'repo')
res = {'property': prop, 'dir': src}
def run(cmd, **kw):
    return subprocess.run(cmd, stdout=subprocess.PIPE, stderr=subprocess.STDOUT, **kw)
try:
    run(['git', '-C', '/repo', 'worktree', 'add', '-q', '--detach', wt, 'HEAD'])
    env = dict(os.environ, PYTHONPATH=wt, PYTHONDONTWRITEBYTECODE='1')
    if not check_only:
        d0 = run(['/venv/bin/python', os.path.join(src, 'demo.py')], cwd=wt, env=env, timeout=900)
        res['demo_without_change_exit'] = d0.returncode
    a = run(['git', '-C', wt, 'apply', '--3way', os.path.join(src, 'patch.diff')])
    if a.returncode != 0:
        a = run(['git', '-C', wt, 'apply', os.path.join(src, 'patch.diff')])
    res['patch_applies'] = a.returncode == 0
    if not check_only:
        t = run(['/venv/bin/python', '-m', 'pytest', '-q', '-p', 'no:cacheprovider', 'test'], cwd=wt, env=env, timeout=900)
        res['tests'] = t.stdout.decode().strip().splitlines()[-1][:60]
        d1 = run(['/venv/bin/python', os.path.join(src, 'demo.py')], cwd=wt, env=env, timeout=900)
        res['demo_with_change_exit'] = d1.returncode
        res['demo_with_change_tail'] = d1.stdout.decode()[-300:]
    env2 = dict(os.environ, VERIF_REPO=wt, VERIF_EVIDENCE_DIR=os.path.join(base, 'ev'), VERIF_REPLAY_DIR=os.path.join(base, 'rp'))
    c = run(['/verif/check', prop, tier], cwd='/verif', env=env2, timeout=7200)
    out = c.stdout.decode()
    res['check_exit'] = c.returncode
    res['check_mechs'] = sorted({ln.split('mech=')[1] for ln in out.splitlines() if ln.startswith('VIOLATION') and 'mech=' in ln})[:6]
    res['check_tail'] = out.strip().splitlines()[-1][:160]
finally:
    run(['git', '-C', '/repo', 'worktree', 'remove', '--force', wt])
    shutil.rmtree(base, ignore_errors=True)
print(json.dumps(res, indent=1))
