#!/bin/sh
# run every registered check at the given tier (default quick) and print one line each
cd "$(dirname "$0")/.." || exit 2
tier=${1:-quick}
for id in $(/venv/bin/python -c "import json;print(' '.join(c['property_id'] for c in json.load(open('MANIFEST.json'))['checks']))"); do
  out=$(./check $id $tier 2>&1); rc=$?
  echo "$id rc=$rc $(echo "$out" | grep -c '^VIOLATION') violations, $(echo "$out" | grep -c '^KNOWN-FINDING') known; $(echo "$out" | tail -1 | cut -c1-110)"
done
