#!/bin/sh
# Verify every finished change of a seeding round in parallel: tools/verify_round.sh <round> [tier] [ids...]
# Writes /tmp/seed<round>/out/<id>/verify.json (tests, demonstration with/without, check result).
r=$1; tier=${2:-quick}; shift; shift
ids=${*:-$(ls /tmp/seed$r/out)}
for id in $ids; do
  d=/tmp/seed$r/out/$id
  [ -f $d/patch.diff ] && [ -f $d/demo.py ] || { echo "$id: not finished"; continue; }
  ( /venv/bin/python /verif/tools/verify_seeded.py $d $id $tier > $d/verify.json 2>&1 ) &
done
wait
for id in $ids; do
  d=/tmp/seed$r/out/$id; [ -f $d/verify.json ] || continue
  /venv/bin/python - $d/verify.json $id <<'PY'
import json, sys
try:
    j = json.load(open(sys.argv[1]))
    print(sys.argv[2], 'tests=', j.get('tests'), 'demo', j.get('demo_without_change_exit'), '->', j.get('demo_with_change_exit'),
          'check_exit=', j.get('check_exit'), j.get('check_mechs'))
except Exception as e:
    print(sys.argv[2], 'unreadable', e)
PY
done
