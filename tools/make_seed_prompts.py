#!/venv/bin/python
"""Prepare one round of independent property-breaking changes: one scratch worktree of /repo HEAD and one
self-contained prompt per property under /tmp/seed<round>/ (outside /repo and /verif).  The prompt contains
only the property text and one-line descriptions of earlier attempts (so that the new one differs in kind);
nothing of the checks.  usage: tools/make_seed_prompts.py <round> [ids...]"""
import glob, json, os, subprocess, sys
rnd = int(sys.argv[1])
only = sys.argv[2:]
root = '/tmp/seed%d' % rnd
props = {}
for l in open('/verif/properties.jsonl'):
    d = json.loads(l)
    props[d['id']] = d
base = '''You are helping evaluate a verification effort for the Python library crazyflie-lib-python (cflib). Your job: introduce ONE realistic defect into the library that breaks the semantic property below, while the library still imports and its existing test suite still passes.

WORKSPACE (use only this; do NOT read anything under /verif, and do not touch /repo itself):
- A scratch git worktree of the library is at: __WT__
- Run Python as: cd __WT__ && PYTHONPATH=__WT__ /venv/bin/python ...   (check that `import cflib; cflib.__file__` points into __WT__)
- Existing tests: cd __WT__ && PYTHONPATH=__WT__ /venv/bin/python -m pytest -q -p no:cacheprovider test    (187 tests; all must still pass with your change)
- No network. Do not install anything. NEVER use `git stash` (the stash is shared between worktrees and other agents work in parallel); to compare with the clean tree save your diff (git diff > __OUT__/patch.diff), undo it (git apply -R __OUT__/patch.diff) and re-apply it (git apply __OUT__/patch.diff).

THE PROPERTY:
__PROP__

PREVIOUS ATTEMPTS already used these defects, so yours must be DIFFERENT IN KIND from all of them (different function or clause of the property, different trigger):
__PREV__
Pick a clause of the property statement, or a part of the quantifier ("for all ..."), that the previous attempts did not touch, if there is one.

WHAT TO PRODUCE:
1. A small change to the library source in the worktree (leave it as uncommitted modifications of tracked files) that makes the property false. Requirements:
   - It must look like a plausible programming mistake or an over-eager cleanup/optimisation a maintainer could commit (off-by-one, wrong comparison, missing guard, reordered statements, dropped lock/flush, state not reset, wrong field, wrong default, lost sign, stale cache, etc.), not sabotage with magic constants.
   - It must NOT be exposed by ordinary, simple use. It should need something specific to manifest: a particular interleaving, a fault or loss at a particular point, a multi-step sequence of operations, an unusual/boundary input, or two cooperating code sites that each look fine alone.
   - The 187 existing tests must still pass.
2. A demonstration: a self-contained Python script saved as __OUT__/demo.py that exercises the real library code (mocks/fakes for hardware and links are fine) and exits 0 when the property holds and non-zero (with a short explanation printed) when it is violated. It must FAIL with your change and PASS on the unmodified worktree. Run it as: cd __WT__ && PYTHONPATH=__WT__ /venv/bin/python __OUT__/demo.py
3. Save the diff as __OUT__/patch.diff and a short __OUT__/notes.md saying: what the change is, why it breaks the property, and exactly what is needed for it to manifest.

Before finishing, verify yourself: (a) tests pass with the change, (b) demo fails with the change, (c) demo passes without it (run it 3 times: it must be deterministic), (d) patch.diff applies cleanly to the clean tree (git apply --check after git apply -R). Leave the change applied in the worktree at the end.

Do not hard-code the worktree path in demo.py (it must run against any checkout through PYTHONPATH).

Reply with a brief summary: files changed, what is needed to manifest, and the outputs of (a)-(c).
'''
os.makedirs(root + '/out', exist_ok=True)
for pid in sorted(props):
    if only and pid not in only:
        continue
    wt, out = '%s/%s' % (root, pid), '%s/out/%s' % (root, pid)
    os.makedirs(out, exist_ok=True)
    if not os.path.isdir(wt):
        subprocess.run(['git', '-C', '/repo', 'worktree', 'add', '-q', '--detach', wt, 'HEAD'], check=True)
    d = props[pid]
    prop = 'Property %s: %s\n\nStatement: %s\n\nQuantified over: %s\n\nRelevant files: %s\n' % (
        d['id'], d['title'], d['statement'], d['quantifier']['text'], ', '.join(d['anchors']['files']))
    prev = []
    for m in sorted(glob.glob('/verif/seeded/%s-s*/meta.json' % pid)):
        j = json.load(open(m))
        prev.append('  - "%s (needs: %s)"' % (j['change'], j['needs_to_manifest']))
    used = {}
    for pd in sorted(glob.glob('/verif/seeded/%s-s*/patch.diff' % pid)):
        for line in open(pd):
            if line.startswith('+++ b/'):
                used[line[6:].strip()] = used.get(line[6:].strip(), 0) + 1
    if used:
        prev.append('  Files the previous attempts changed (times): ' + ', '.join('%s (%d)' % kv for kv in sorted(used.items())) +
                    '. Prefer a relevant file or function that has been used least or not at all, if one exists '
                    '(the "Relevant files" list above is not exhaustive: helpers they call count too).')
    t = base.replace('__WT__', wt).replace('__OUT__', out).replace('__PROP__', prop).replace('__PREV__', '\n'.join(prev))
    open(out + '/prompt.txt', 'w').write(t)
print('prepared', root)
