#!/bin/sh
# Re-run every stored seeded change against the current checks (scratch worktrees of /repo HEAD; /repo itself
# is never touched).  A change whose meta.json names another check in "caught_by" is run against that check.  usage: tools/verify_all_seeded.sh [tier] [--full]   (--full also re-runs tests and demos)
cd "$(dirname "$0")/.." || exit 2
tier=${1:-quick}; mode=--check-only; [ "$2" = "--full" ] && mode=
out=$(mktemp -d /tmp/vf_allseed_XXXX)
ls seeded | grep -v results_ | while read d; do grep -q "superseded_by_fix\|outside_quantifier" seeded/$d/meta.json 2>/dev/null || echo $d; done | xargs -P 4 -I{} sh -c "p=\$(grep -o '\"caught_by\": \"C[0-9]*' seeded/{}/meta.json | grep -o 'C[0-9]*\$'); [ -z \"\$p\" ] && p=\$(echo {} | cut -c1-3); VERIF_JOBS=4 /venv/bin/python tools/verify_seeded.py seeded/{} \$p $tier $mode > $out/{}.json 2>&1"
/venv/bin/python - "$out" "$tier" <<'PY'
import json, os, sys
out, tier = sys.argv[1], sys.argv[2]
res, missed = {}, []
for f in sorted(os.listdir(out)):
    try:
        d = json.load(open(os.path.join(out, f)))
    except Exception as e:
        d = {'error': str(e)}
    sid = f[:-5]
    res[sid] = {k: d.get(k) for k in ('patch_applies', 'check_exit', 'check_mechs', 'tests', 'demo_without_change_exit', 'demo_with_change_exit') if k in d}
    ok = d.get('patch_applies') and d.get('check_exit') == 1 and d.get('check_mechs')
    print('%-8s %s %s' % (sid, 'CAUGHT' if ok else 'NOT-CAUGHT', (d.get('check_mechs') or [''])[0]))
    if not ok:
        missed.append(sid)
json.dump(res, open('seeded/results_%s.json' % tier, 'w'), indent=1)
print('%d seeded changes, %d caught, not caught: %s' % (len(res), len(res) - len(missed), missed))
PY
rm -rf "$out"
