#!/venv/bin/python
"""Store one verified change of a seeding round as seeded/<id>-s<round>/ (patch.diff, demo.py, notes.md,
verify_initial.json, meta.json).  usage: tools/store_round.py <round> <id> <change> <needs> <check_result>"""
import json, os, shutil, sys
rnd, pid, change, needs, result = sys.argv[1:6]
src = '/tmp/seed%s/out/%s' % (rnd, pid)
dst = '/verif/seeded/%s-s%s' % (pid, rnd)
os.makedirs(dst, exist_ok=True)
for f in ('patch.diff', 'demo.py', 'notes.md'):
    if os.path.exists(os.path.join(src, f)):
        shutil.copy(os.path.join(src, f), dst)
first = src + ('/verify_first.json' if os.path.exists(src + '/verify_first.json') else '/verify.json')
if not os.path.exists(dst + '/verify_initial.json'):
    shutil.copy(first, dst + '/verify_initial.json')
v = json.load(open(dst + '/verify_initial.json'))
assert v['demo_without_change_exit'] == 0 and v['demo_with_change_exit'] != 0 and '187 passed' in v['tests'], v
json.dump({'id': '%s-s%s' % (pid, rnd), 'breaks_property': pid, 'change': change, 'needs_to_manifest': needs,
           'verified': 'applied to a scratch worktree of /repo HEAD: repository tests %s; demo.py exits 0 without and %d with the change '
                       '(tools/verify_seeded.py; first result in verify_initial.json)' % (v['tests'], v['demo_with_change_exit']),
           'check_result': result,
           'source': 'independent sub-agent (round %s) given only the property text, its own worktree and one-line descriptions of the earlier changes' % rnd},
          open(dst + '/meta.json', 'w'), indent=1)
print('stored', dst)
