"""Seeded generators for device tables and reply policies (shared by C02, C03, C04, C06, C10, C11)."""
import random

from vf import simcf

NAME_CHARS_ASCII = 'abcdefghijklmnopqrstuvwxyzABCDEFGHIJKLMNOPQRSTUVWXYZ0123456789_'
NAME_CHARS_LATIN = ''.join(chr(c) for c in range(1, 256) if c != 0x2E)


def _name(rnd, n, latin):
    chars = NAME_CHARS_LATIN if latin else NAME_CHARS_ASCII
    return ''.join(rnd.choice(chars) for _ in range(n))


def names(rnd, count, budget, latin=False, long_bias=0.15):
    """count distinct (group, name) pairs with len(group)+len(name) <= budget, both non-empty."""
    out, seen = [], set()
    groups = []
    while len(out) < count:
        r = rnd.random()
        if r < long_bias:
            gl = rnd.randint(1, budget - 1)
            nl = budget - gl
        elif r < 2 * long_bias:
            gl, nl = 1, 1
        else:
            gl = rnd.randint(1, min(8, budget - 1))
            nl = rnd.randint(1, min(10, budget - gl))
        if groups and rnd.random() < 0.6:
            g = rnd.choice(groups)
            if len(g) + nl > budget:
                nl = max(1, budget - len(g))
                if len(g) + nl > budget:
                    continue
        else:
            g = _name(rnd, gl, latin and rnd.random() < 0.3)
            groups.append(g)
        n = _name(rnd, nl, latin and rnd.random() < 0.3)
        if (g, n) in seen:
            continue
        seen.add((g, n))
        out.append((g, n))
    return out


PARAM_CODES = [0x08, 0x09, 0x0A, 0x0B, 0x00, 0x01, 0x02, 0x03, 0x06, 0x07]
INT_RANGE = {0x08: (0, 255), 0x09: (0, 65535), 0x0A: (0, 2 ** 32 - 1), 0x0B: (0, 2 ** 64 - 1),
             0x00: (-128, 127), 0x01: (-32768, 32767), 0x02: (-2 ** 31, 2 ** 31 - 1), 0x03: (-2 ** 63, 2 ** 63 - 1)}


def param_value(rnd, t):
    if t in INT_RANGE:
        lo, hi = INT_RANGE[t]
        return rnd.choice((lo, hi, 0 if lo <= 0 else lo, rnd.randint(lo, hi), rnd.randint(lo, hi)))
    import struct
    v = rnd.choice((0.0, 1.5, -2.25, rnd.uniform(-1e3, 1e3), rnd.uniform(-1, 1)))
    if t == 0x06:
        v = struct.unpack('<f', struct.pack('<f', v))[0]
    return v


def profile(seed, nlog, nparam, proto=10, latin=False, mems=(), ext_frac=0.3, ro_frac=0.25):
    rnd = random.Random(seed)
    v2 = proto >= 4
    budget = 24 if v2 else 25
    log = [[g, n, rnd.randint(1, 8)] for g, n in names(rnd, nlog, budget, latin)]
    param = []
    for g, n in names(rnd, nparam, budget, latin):
        t = rnd.choice(PARAM_CODES)
        ext = v2 and rnd.random() < ext_frac
        pers = ext and rnd.random() < 0.7
        param.append({'g': g, 'n': n, 't': t, 'ro': rnd.random() < ro_frac, 'ext': ext, 'pers': pers,
                      'v': param_value(rnd, t), 'd': param_value(rnd, t),
                      's': param_value(rnd, t) if pers and rnd.random() < 0.5 else None})
    return {'proto': proto, 'log': log, 'log_crc': rnd.getrandbits(32), 'param': param,
            'param_crc': rnd.getrandbits(32), 'mems': list(mems)}


# ---------------------------------------------------------------------------------- reply policies
def make_reply_policy(kind, seed, p=0.3, maxdelay=0.004):
    """Return f(spec, n_reply, header, data) -> [(extra_delay, header, data)...]."""
    rnd = random.Random(seed)
    if kind == 'inorder':
        return None

    def dup(spec, n, h, d):
        if rnd.random() < p:
            return [(0.0, h, d), (0.0, h, d)]
        return [(0.0, h, d)]

    def dupdelay(spec, n, h, d):
        outs = [(0.0, h, d)]
        if rnd.random() < p:
            outs.append((rnd.uniform(0, maxdelay), h, d))
        if rnd.random() < p / 3:
            outs.append((rnd.uniform(0, 10 * maxdelay), h, d))
        return outs

    def delay(spec, n, h, d):
        return [(rnd.uniform(0, maxdelay), h, d)]

    def lossy(spec, n, h, d):
        port = (h >> 4) & 0xF
        if port in (13, 15):
            return [(0.0, h, d)]
        if rnd.random() < p:
            return []
        return [(0.0, h, d)]
    return {'dup': dup, 'dupdelay': dupdelay, 'delay': delay, 'lossy': lossy}[kind]


def make_tx_filter(seed, p=0.2):
    """Uplink loss (only meaningful on needs_resending links).  Never drops platform / link-control
    packets: the library sends those without an expected reply, so nothing would retry them."""
    rnd = random.Random(seed ^ 0x5A5A)

    def f(spec, n, h, d):
        port = (h >> 4) & 0xF
        if port in (13, 15, 3, 7, 8):
            return True
        return rnd.random() >= p
    return f


del simcf
