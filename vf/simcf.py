"""simcf - a simulated Crazyflie at the CRTP boundary and a `sim://` link driver.

Written from the firmware's protocol definitions (crtp services: link control, platform, log,
param, mem), independently of the library under test.  The device owns the ground truth
(tables, values, memory images, log blocks) and records every packet it receives.
"""
import struct

ENOENT, EIO, E2BIG, ENOMEM, EEXIST, EACCES, ENOEXEC = 2, 5, 7, 12, 17, 13, 8

LOG_TYPES = {1: ('uint8_t', '<B', 1), 2: ('uint16_t', '<H', 2), 3: ('uint32_t', '<L', 4), 4: ('int8_t', '<b', 1),
             5: ('int16_t', '<h', 2), 6: ('int32_t', '<i', 4), 7: ('float', '<f', 4), 8: ('FP16', '<e', 2)}
PARAM_TYPES = {0x08: ('uint8_t', '<B', 1), 0x09: ('uint16_t', '<H', 2), 0x0A: ('uint32_t', '<L', 4),
               0x0B: ('uint64_t', '<Q', 8), 0x00: ('int8_t', '<b', 1), 0x01: ('int16_t', '<h', 2),
               0x02: ('int32_t', '<i', 4), 0x03: ('int64_t', '<q', 8), 0x06: ('float', '<f', 4),
               0x07: ('double', '<d', 8)}

PORT_CONSOLE, PORT_PARAM, PORT_CMD, PORT_MEM, PORT_LOG, PORT_LOC, PORT_GEN, PORT_HL, PORT_PLATFORM, PORT_LINK = \
    0, 2, 3, 4, 5, 6, 7, 8, 13, 15


def hdr(port, chan):
    return (port & 0xF) << 4 | (chan & 3)


class LogBlock:
    def __init__(self, bid):
        self.id = bid
        self.ops = []          # (fetch_type, stored_type, var index or None, address or None)
        self.started = False
        self.period = 0

    def length(self):
        return sum(LOG_TYPES[o[0]][2] for o in self.ops if o[0] in LOG_TYPES)


class SimCF:
    """The device.  `profile` is a plain JSON-able dict (see default_profile())."""

    def __init__(self, profile):
        self.p = profile
        self.proto = profile.get('proto', 10)
        self.log_toc = [tuple(x) for x in profile.get('log', [])]
        self.log_crc = profile.get('log_crc', 0x12345678)
        self.params = [dict(x) for x in profile.get('param', [])]
        self.param_crc = profile.get('param_crc', 0x9ABCDEF0)
        self.mems = []
        for m in profile.get('mems', []):
            self.mems.append({'type': m['type'], 'size': m['size'], 'addr': bytes.fromhex(m.get('addr', '00' * 8)),
                              'origin': m.get('origin', 0),
                              'data': bytearray(bytes.fromhex(m['data'])) if 'data' in m else
                              bytearray(m.get('len', m['size']))})
        self.blocks = {}
        self.rx = []               # (t, header, data) every packet received
        self.now = lambda: 0.0
        self.hooks = {}            # scripted overrides: name -> callable
        self.seq = {}              # per-kind counters for scripts
        self.events = []           # device-level semantic events (param writes, mem writes, block ops)
        self.log_ts = 0

    # -------------------------------------------------------------- helpers
    def _n(self, kind):
        self.seq[kind] = self.seq.get(kind, 0) + 1
        return self.seq[kind]

    def _hook(self, name, *a):
        f = self.hooks.get(name)
        return f(*a) if f else None

    def param_value_bytes(self, i, field='v'):
        p = self.params[i]
        return struct.pack(PARAM_TYPES[p['t']][1], p[field])

    # -------------------------------------------------------------- entry
    def handle(self, header, data):
        """Process one uplink packet; return list of (header, data) downlink packets."""
        data = bytes(data)
        self.rx.append((self.now(), header, data))
        port, chan = (header >> 4) & 0xF, header & 3
        try:
            if port == PORT_LINK:
                return self._link(chan, data)
            if port == PORT_PLATFORM:
                return self._platform(chan, data)
            if port == PORT_LOG:
                return self._log(chan, data)
            if port == PORT_PARAM:
                return self._param(chan, data)
            if port == PORT_MEM:
                return self._mem(chan, data)
        except (IndexError, struct.error):
            return []      # malformed request: firmware drops it
        return []

    # -------------------------------------------------------------- link / platform
    def _link(self, chan, data):
        if chan == 0:
            return [(hdr(PORT_LINK, 0), data)]
        if chan == 1:
            if self.p.get('legacy_source', False):
                return [(hdr(PORT_LINK, 1), bytes(30))]
            return [(hdr(PORT_LINK, 1), b'Bitcraze Crazyflie'.ljust(30, b'\0'))]
        return []

    def _platform(self, chan, data):
        if chan == 0:
            return [(hdr(PORT_PLATFORM, 0), data)]
        if chan == 1:
            if data[0] == 0:
                return [(hdr(PORT_PLATFORM, 1), bytes([0, self.proto & 0xFF]))]
            if data[0] == 1:
                return [(hdr(PORT_PLATFORM, 1), bytes([1]) + b'simcf-fw')]
            if data[0] == 2:
                return [(hdr(PORT_PLATFORM, 1), bytes([2]) + b'CF21')]
        if chan == 2:
            return []
        return []

    # -------------------------------------------------------------- TOC
    def _toc(self, port, data, count, crc, item_bytes, info_tail=b''):
        cmd = data[0]
        h = hdr(port, 0)
        if cmd == 1:      # INFO v1
            return [(h, bytes([1, min(count, 255)]) + struct.pack('<I', crc) + info_tail)]
        if cmd == 3 and self.proto >= 4:
            return [(h, bytes([3]) + struct.pack('<HI', count, crc) + info_tail)]
        if cmd == 0:
            idx = data[1]
            if idx < count:
                return [(h, bytes([0, idx]) + item_bytes(idx))]
            return [(h, bytes([0]))]
        if cmd == 2 and self.proto >= 4:
            idx = struct.unpack('<H', data[1:3])[0]
            if idx < count:
                return [(h, bytes([2]) + struct.pack('<H', idx) + item_bytes(idx))]
            return [(h, bytes([2]))]
        return []

    def log_item(self, idx):
        g, n, t = self.log_toc[idx]
        return bytes([t]) + g.encode('latin-1') + b'\0' + n.encode('latin-1') + b'\0'

    def param_item(self, idx):
        p = self.params[idx]
        meta = p['t'] | (0x40 if p.get('ro') else 0) | (0x10 if p.get('ext') else 0)
        return bytes([meta]) + p['g'].encode('latin-1') + b'\0' + p['n'].encode('latin-1') + b'\0'

    # -------------------------------------------------------------- log
    def _log(self, chan, data):
        if chan == 0:
            return self._toc(PORT_LOG, data, len(self.log_toc), self.log_crc, self.log_item, bytes([16, 128]))
        if chan != 1:
            return []
        cmd = data[0]
        h = hdr(PORT_LOG, 1)
        if cmd == 5:
            self.blocks = {}
            self.events.append(('log_reset',))
            return [(h, bytes([5, 0, 0]))]
        bid = data[1]
        err = 0
        if cmd in (0, 6, 1, 7):
            v2 = cmd in (6, 7)
            create = cmd in (0, 6)
            if v2 and self.proto < 4:
                return [(h, bytes([cmd, bid, ENOEXEC]))]
            if create:
                if bid in self.blocks:
                    err = EEXIST
                elif len(self.blocks) >= 16:
                    err = ENOMEM
                else:
                    self.blocks[bid] = LogBlock(bid)
            elif bid not in self.blocks:
                err = ENOENT
            forced = self._hook('log_err', cmd, bid, self._n('log_create'))
            if forced:
                if create and err == 0:
                    del self.blocks[bid]
                err = forced
            if err == 0:
                blk = self.blocks[bid]
                body = data[2:]
                step = 3 if v2 else 2
                n = len(body) // step
                i = 0
                while i < n:
                    lt = body[i * step]
                    vid = struct.unpack('<H', body[i * step + 1:i * step + 3])[0] if v2 else body[i * step + 1]
                    fetch, stored = lt & 0x0F, (lt >> 4) & 0x0F
                    if fetch not in LOG_TYPES:
                        err = ENOENT
                        break
                    if blk.length() + LOG_TYPES[fetch][2] > 26:
                        err = E2BIG
                        break
                    if vid != (0xFFFF if v2 else 0xFF):
                        if vid >= len(self.log_toc):
                            err = ENOENT
                            break
                        blk.ops.append((fetch, stored, vid, None))
                    else:
                        blk.ops.append((fetch, stored, None, bytes(body[(i + 1) * step:(i + 3) * step])))
                        i += 2
                    i += 1
                if err and create:
                    del self.blocks[bid]
            self.events.append(('log_create' if create else 'log_append', bid, err, bytes(data)))
            return [(h, bytes([cmd, bid, err]))]
        if cmd == 2:
            forced = self._hook('log_err', cmd, bid, self._n('log_delete'))
            if forced:
                err = forced
            elif bid in self.blocks:
                del self.blocks[bid]
            else:
                err = ENOENT
            self.events.append(('log_delete', bid, err))
            return [(h, bytes([2, bid, err]))]
        if cmd == 3:
            forced = self._hook('log_err', cmd, bid, self._n('log_start'))
            if forced:
                err = forced
            elif bid in self.blocks:
                self.blocks[bid].started = True
                self.blocks[bid].period = data[2]
            else:
                err = ENOENT
            self.events.append(('log_start', bid, err, data[2] if len(data) > 2 else None))
            out = [(h, bytes([3, bid, err]))]
            if not err:
                # a firmware whose logging task fires right after the block was started: first sample directly behind
                # the acknowledgement (scripted by the check: hook returns (values, timestamp) or None)
                first = self._hook('log_first_sample', bid)
                if first is not None:
                    out.append(self.log_data_packet(bid, first[0], first[1]))
            return out
        if cmd == 4:
            forced = self._hook('log_err', cmd, bid, self._n('log_stop'))
            if forced:
                err = forced
            elif bid in self.blocks:
                self.blocks[bid].started = False
            else:
                err = ENOENT
            self.events.append(('log_stop', bid, err))
            return [(h, bytes([4, bid, err]))]
        return [(h, bytes([cmd, bid, ENOEXEC]))]

    def log_data_packet(self, bid, values, timestamp):
        """Encode a log data packet for block bid as the firmware would (values: one per op)."""
        blk = self.blocks[bid]
        body = b''.join(struct.pack(LOG_TYPES[op[0]][1], v) for op, v in zip(blk.ops, values))
        ts = timestamp & 0xFFFFFF
        return (hdr(PORT_LOG, 2), bytes([bid, ts & 0xFF, (ts >> 8) & 0xFF, (ts >> 16) & 0xFF]) + body)

    # -------------------------------------------------------------- param
    def _param(self, chan, data):
        v2 = self.proto >= 4
        if chan == 0:
            return self._toc(PORT_PARAM, data, len(self.params), self.param_crc, self.param_item)
        if chan == 1:       # read
            if v2:
                idx = struct.unpack('<H', data[:2])[0]
                if idx >= len(self.params):
                    return [(hdr(PORT_PARAM, 1), data[:2] + bytes([ENOENT]))]
                self.events.append(('param_read', idx))
                return [(hdr(PORT_PARAM, 1), data[:2] + bytes([0]) + self.param_value_bytes(idx))]
            idx = data[0]
            if idx >= len(self.params):
                return [(hdr(PORT_PARAM, 1), bytes([0xFF, idx, ENOENT]))]
            self.events.append(('param_read', idx))
            return [(hdr(PORT_PARAM, 1), bytes([idx]) + self.param_value_bytes(idx))]
        if chan == 2:       # write
            if v2:
                idx = struct.unpack('<H', data[:2])[0]
                raw = data[2:]
                pre = data[:2]
            else:
                idx = data[0]
                raw = data[1:]
                pre = data[:1]
            if idx >= len(self.params):
                return [(hdr(PORT_PARAM, 2), pre + bytes([ENOENT]))]
            p = self.params[idx]
            fmt, size = PARAM_TYPES[p['t']][1], PARAM_TYPES[p['t']][2]
            self.events.append(('param_write', idx, bytes(raw), self.now()))
            if p.get('ro'):
                return [(hdr(PORT_PARAM, 2), pre + bytes([EACCES]))]
            if len(raw) == size:
                p['v'] = struct.unpack(fmt, raw)[0]
            return [(hdr(PORT_PARAM, 2), pre + self.param_value_bytes(idx))]
        if chan == 3 and v2:
            cmd = data[0]
            h = hdr(PORT_PARAM, 3)
            if cmd == 0:    # set by name
                parts = data[1:].split(b'\0')
                g, n = parts[0].decode('latin-1'), parts[1].decode('latin-1')
                rest = data[1 + len(parts[0]) + 1 + len(parts[1]) + 1:]
                err = ENOENT
                for i, p in enumerate(self.params):
                    if p['g'] == g and p['n'] == n:
                        if rest[0] != p['t']:
                            err = 22
                        elif p.get('ro'):
                            err = EACCES
                        else:
                            p['v'] = struct.unpack(PARAM_TYPES[p['t']][1], rest[1:1 + PARAM_TYPES[p['t']][2]])[0]
                            err = 0
                            self.events.append(('param_setbyname', i, bytes(rest[1:]), self.now()))
                return [(h, data[:1 + len(parts[0]) + 1 + len(parts[1]) + 1] + bytes([err]))]
            idx = struct.unpack('<H', data[1:3])[0]
            ok = idx < len(self.params)
            self.events.append(('param_misc', cmd, idx, self.now()))
            if cmd == 2:
                if not ok:
                    return [(h, data[:3] + bytes([ENOENT]))]
                return [(h, data[:3] + bytes([1 if self.params[idx].get('pers') else 0]))]
            if cmd == 3:
                if not ok or not self.params[idx].get('pers'):
                    return [(h, data[:3] + bytes([ENOENT]))]
                forced = self._hook('persist_err', cmd, idx)
                if forced:
                    return [(h, data[:3] + bytes([forced]))]
                self.params[idx]['s'] = self.params[idx]['v']
                return [(h, data[:3] + bytes([0]))]
            if cmd == 5:
                if not ok or not self.params[idx].get('pers'):
                    return [(h, data[:3] + bytes([ENOENT]))]
                forced = self._hook('persist_err', cmd, idx)
                if forced:
                    return [(h, data[:3] + bytes([forced]))]
                self.params[idx]['s'] = None
                return [(h, data[:3] + bytes([0]))]
            if cmd == 4:
                if not ok or not self.params[idx].get('pers'):
                    return [(h, data[:3] + bytes([ENOENT]))]
                forced = self._hook('persist_err', cmd, idx)
                if forced:
                    return [(h, data[:3] + bytes([forced]))]
                p = self.params[idx]
                fmt = PARAM_TYPES[p['t']][1]
                if p.get('s') is None:
                    return [(h, data[:3] + bytes([0]) + struct.pack(fmt, p['d']))]
                return [(h, data[:3] + bytes([1]) + struct.pack(fmt, p['d']) + struct.pack(fmt, p['s']))]
            if cmd == 6:
                if not ok:
                    return [(h, data[:3] + bytes([ENOENT]))]
                p = self.params[idx]
                return [(h, data[:3] + struct.pack(PARAM_TYPES[p['t']][1], p['d']))]
        return []

    def value_updated_packet(self, idx):
        """Unsolicited MISC_VALUE_UPDATED notification for parameter idx (current value)."""
        return (hdr(PORT_PARAM, 3), bytes([1]) + struct.pack('<H', idx) + self.param_value_bytes(idx))

    # -------------------------------------------------------------- mem
    def _in_range(self, mid, addr, ln):
        m = self.mems[mid]
        return m['origin'] <= addr and addr + ln <= m['origin'] + len(m['data'])

    def _mem(self, chan, data):
        if chan == 0:
            cmd = data[0]
            h = hdr(PORT_MEM, 0)
            if cmd == 1:
                return [(h, bytes([1, len(self.mems)]))]
            if cmd == 2:
                mid = data[1]
                if mid >= len(self.mems):
                    return [(h, bytes([2, mid]))]
                m = self.mems[mid]
                return [(h, bytes([2, mid, m['type']]) + struct.pack('<I', m['size']) + m['addr'])]
            if cmd == 0:
                return [(h, bytes([0, 1]))]
            return []
        if chan == 1:
            mid, addr, ln = struct.unpack('<BIB', data[:6])
            h = hdr(PORT_MEM, 1)
            k = self._n('mem_read')
            status = 0
            if mid >= len(self.mems) or ln > 24 or not self._in_range(mid, addr, ln):
                status = EIO
            forced = self._hook('mem_status', 'read', mid, addr, k)
            if forced:
                status = forced
            self.events.append(('mem_read', mid, addr, ln, status))
            if status:
                return [(h, data[:5] + bytes([status]))]
            o = self.mems[mid]['origin']
            return [(h, data[:5] + bytes([0]) + bytes(self.mems[mid]['data'][addr - o:addr - o + ln]))]
        if chan == 2:
            mid, addr = struct.unpack('<BI', data[:5])
            body = data[5:]
            h = hdr(PORT_MEM, 2)
            k = self._n('mem_write')
            status = 0
            if mid >= len(self.mems) or not self._in_range(mid, addr, len(body)):
                status = EIO
            forced = self._hook('mem_status', 'write', mid, addr, k)
            if forced:
                status = forced
            self.events.append(('mem_write', mid, addr, bytes(body), status))
            if status == 0:
                o = self.mems[mid]['origin']
                self.mems[mid]['data'][addr - o:addr - o + len(body)] = body
            return [(h, data[:5] + bytes([status]))]
        return []


# ====================================================================== profiles
def default_profile(nlog=3, nparam=4, proto=10, mems=()):
    log = [['g%d' % (i // 3), 'v%d' % i, (i % 8) + 1] for i in range(nlog)]
    codes = [0x08, 0x09, 0x0A, 0x0B, 0x00, 0x01, 0x02, 0x03, 0x06, 0x07]
    param = []
    for i in range(nparam):
        t = codes[i % len(codes)]
        isf = t in (6, 7)
        param.append({'g': 'p%d' % (i // 3), 'n': 'x%d' % i, 't': t, 'ro': i % 5 == 4, 'ext': i % 3 == 1,
                      'pers': i % 3 == 1, 'v': 1.5 if isf else (i % 100) + 1, 'd': 0.25 if isf else 7, 's': None})
    return {'proto': proto, 'log': log, 'log_crc': 0x1111AAAA, 'param': param, 'param_crc': 0x2222BBBB,
            'mems': list(mems)}
