"""`sim://` CRTP link driver (virtual-time, for detsched) and a synchronous pump link."""
import collections
import heapq
import threading

from vf import detsched as ds

import cflib.crtp
from cflib.crtp.crtpdriver import CRTPDriver
from cflib.crtp.crtpstack import CRTPPacket
from cflib.crtp.exceptions import WrongUriType

SIMS = {}


class LinkSpec:
    """Per-URI configuration of a simulated link (set up by the harness before open_link)."""

    def __init__(self, device, needs_resending=False, latency=0.001):
        self.device = device
        self.needs_resending = needs_resending
        self.latency = latency
        self.reply_policy = None      # f(spec, n_reply, header, data) -> [(extra_delay, header, data), ...]
        self.tx_filter = None         # f(spec, n_tx, header, data) -> deliver to device?
        self.fail_after_tx = None     # link error when the k-th packet is sent (1-based)
        self.fail_after_rx = None     # link error after the k-th packet was handed to the library
        self.fail_on_tx = None        # f(header, data) -> True: link error when such a packet is sent
        self.fail_reporter = 'driver'  # 'driver' (driver-owned thread) | 'sender' (inside send_packet)
        self.fail_msg = 'simulated link failure'
        self.connect_error = None     # exception instance raised by connect()
        self.deliver_queued_after_close = False   # packets that had already arrived when the link was closed stay in the
        #                                           driver's queue and are still handed out (real drivers do not
        #                                           drain their in-queue on close())
        self.fail_in_connect = None   # link error reported while connect() is still running: 'sync' (connecting
        #                               thread) | 'thread' (driver thread, before connect returns) | 'race' (driver
        #                               thread, racing with the return of connect)
        self.tx = []                  # (t, session, header, data, delivered)
        self.rx = []                  # (t, session, header, data)
        self.sessions = 0
        self.n_tx = 0
        self.n_rx = 0
        self.sess_tx = 0              # per-session counters (fault positions refer to these)
        self.sess_rx = 0
        self.n_reply = 0
        self.carry = []
        self.seq = 0                  # global order of tx / rx hand-offs
        self.dispatching = None       # thread that received a packet and has not asked for the next one yet
        self.on_dispatch_start = None
        self.faults_fired = 0
        self.links = []
        self.tx_after_close = []


class PumpDone(BaseException):
    """Raised by PumpLink.receive_packet when the reply script is exhausted."""


class _DriverThread(threading.Thread):
    def __init__(self, link):
        threading.Thread.__init__(self)
        self.link = link
        self.kick = ds.Event()
        self.stop_flag = False
        self.fault = None
        self.cb = link.link_error_callback
        self.delivered = ds.Event()

    def run(self):
        while True:
            self.kick.wait()
            self.kick.clear()
            if self.fault is not None:
                msg, self.fault = self.fault, None
                if self.cb is not None:
                    self.cb(msg)
                self.delivered.set()
            if self.stop_flag:
                return


class SimLinkDriver(CRTPDriver):
    def __init__(self):
        CRTPDriver.__init__(self)
        self.spec = None
        self.closed = True
        self.link_error_callback = None
        self._inflight = []
        self._ctr = 0
        self._wake = None
        self._thread = None
        self.session = None
        self.uri = ''

    def connect(self, uri, radio_link_statistics_callback, link_error_callback):
        if not uri.startswith('sim://'):
            raise WrongUriType('Not a sim URI')
        spec = SIMS.get(uri)
        if spec is None:
            raise Exception('no simulated device at ' + uri)
        if spec.connect_error is not None:
            raise spec.connect_error
        self.spec = spec
        self.uri = uri
        spec.sessions += 1
        spec.links.append(self)
        self.session = spec.sessions
        spec.sess_tx = 0
        spec.sess_rx = 0
        self.needs_resending = spec.needs_resending
        self.link_error_callback = link_error_callback
        self.closed = False
        self._wake = ds.Event()
        self._thread = _DriverThread(self)
        self._thread.start()
        self.dead = False
        if spec.fail_in_connect is not None:
            # the link dies before connect() has returned (e.g. the dongle is unplugged, or the driver thread
            # gives up, while the caller has not yet got the driver object back)
            spec.faults_fired += 1
            self.dead = True
            if spec.fail_in_connect == 'sync':
                link_error_callback(spec.fail_msg)
            else:
                self._thread.fault = spec.fail_msg
                self._thread.kick.set()
                if spec.fail_in_connect == 'thread':
                    self._thread.delivered.wait()

    # ------------------------------------------------------------------
    def _now(self):
        return ds.CUR.now if ds.CUR is not None else 0.0

    def _fault(self):
        spec = self.spec
        spec.faults_fired += 1
        if spec.fail_reporter == 'sender':
            cb = self.link_error_callback
            if cb is not None:
                cb(spec.fail_msg)
        else:
            self._thread.fault = spec.fail_msg
            self._thread.kick.set()

    def inject(self, header, data, delay=0.0):
        """Device-originated packet (log data, notifications)."""
        self._ctr += 1
        heapq.heappush(self._inflight, (self._now() + delay, self._ctr, header, bytes(data)))
        self._wake.set()

    def send_packet(self, pk):
        spec = self.spec
        header, data = pk.header, bytes(pk.data)
        if self.closed:
            spec.tx_after_close.append((self._now(), self.session, header, data))
            return
        if getattr(self, 'dead', False):
            return
        spec.n_tx += 1
        spec.sess_tx += 1
        n = spec.sess_tx
        deliver = True
        if spec.tx_filter is not None:
            deliver = bool(spec.tx_filter(spec, n, header, data))
        spec.seq += 1
        spec.tx.append((self._now(), self.session, header, data, deliver, spec.seq))
        if deliver:
            for (h, d) in spec.device.handle(header, data):
                spec.n_reply += 1
                outs = [(0.0, h, d)]
                if spec.reply_policy is not None:
                    outs = spec.reply_policy(spec, spec.n_reply, h, d)
                for (extra, h2, d2) in outs:
                    self._ctr += 1
                    heapq.heappush(self._inflight, (self._now() + spec.latency + extra, self._ctr, h2, bytes(d2)))
            self._wake.set()
        if spec.fail_after_tx is not None and n == spec.fail_after_tx:
            if spec.fail_reporter == 'sender' and getattr(spec, 'fail_send_blocks', 0.0) > 0 and ds.CUR is not None:
                # like the radio driver: the send call waits (for room in its queue) before it gives up and reports the error
                # from the calling thread
                ds.CUR.sleep(spec.fail_send_blocks)
            self._fault()
        elif spec.fail_on_tx is not None and spec.fail_on_tx(header, data):
            spec.fail_on_tx = None
            self._fault()
        return True

    def receive_packet(self, wait=0):
        s = ds.CUR
        start = self._now()
        deadline = None if wait < 0 else start + wait
        if self.spec is not None and self.spec.dispatching is threading.current_thread():
            self.spec.dispatching = None
        while True:
            if self.closed and self.spec is not None and self.spec.deliver_queued_after_close and self._inflight and \
                    self._inflight[0][0] <= getattr(self, 'closed_at', -1.0):
                _, _, h, d = heapq.heappop(self._inflight)
                spec = self.spec
                spec.n_rx += 1
                spec.seq += 1
                spec.rx.append((self._now(), self.session, h, d, spec.seq))
                spec.rx_after_close = getattr(spec, 'rx_after_close', 0) + 1
                spec.dispatching = threading.current_thread()
                if spec.on_dispatch_start is not None:
                    spec.on_dispatch_start()
                return CRTPPacket(h, list(d))
            if self.closed or getattr(self, 'dead', False):
                if wait > 0 and s is not None:
                    rem = deadline - s.now
                    if rem > 0:
                        s.sleep(rem)
                return None
            now = self._now()
            if self._inflight and self._inflight[0][0] <= now:
                _, _, h, d = heapq.heappop(self._inflight)
                spec = self.spec
                spec.n_rx += 1
                spec.sess_rx += 1
                spec.seq += 1
                spec.rx.append((now, self.session, h, d, spec.seq))
                pk = CRTPPacket(h, list(d))
                spec.dispatching = threading.current_thread()
                if spec.on_dispatch_start is not None:
                    spec.on_dispatch_start()
                if spec.fail_after_rx is not None and spec.sess_rx == spec.fail_after_rx:
                    self._fault()
                return pk
            t = deadline
            if self._inflight and (t is None or self._inflight[0][0] < t):
                t = self._inflight[0][0]
            if t is not None and t <= now:
                return None
            self._wake.clear()
            self._wake.wait(None if t is None else t - now)

    def close(self):
        if self.closed:
            return
        self.closed = True
        self.closed_at = self._now()
        th = self._thread
        th.stop_flag = True
        th.kick.set()
        self._wake.set()
        try:
            th.join()
        except Exception:
            pass
        self.link_error_callback = None

    def get_status(self):
        return 'sim'

    def get_name(self):
        return 'sim'

    def scan_interface(self, address=None):
        return []


def register():
    if SimLinkDriver not in cflib.crtp.CLASSES:
        cflib.crtp.CLASSES.append(SimLinkDriver)


class PumpLink:
    """Synchronous link for scheduler-free pump mode: replies are queued and handed out by
    receive_packet until the script is exhausted, then PumpDone is raised."""

    def __init__(self, device, needs_resending=False, reply_policy=None):
        self.device = device
        self.needs_resending = needs_resending
        self.q = collections.deque()
        self.tx = []
        self.reply_policy = reply_policy
        self.n_reply = 0
        self.closed = False

    def send_packet(self, pk):
        header, data = pk.header, bytes(pk.data)
        self.tx.append((header, data))
        if self.closed:
            return
        for (h, d) in self.device.handle(header, data):
            self.n_reply += 1
            outs = [(h, d)]
            if self.reply_policy is not None:
                outs = self.reply_policy(self.n_reply, h, d)
            self.q.extend(outs)
        return True

    def inject(self, header, data):
        self.q.append((header, bytes(data)))

    def receive_packet(self, wait=0):
        if not self.q:
            raise PumpDone()
        h, d = self.q.popleft()
        return CRTPPacket(h, list(d))

    def close(self):
        self.closed = True
