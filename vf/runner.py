"""Entry point behind ./check: fan cases out to worker subprocesses, aggregate what the
monitors observed, classify witnesses, write evidence, print the verdict."""
import concurrent.futures
import hashlib
import importlib
import json
import os
import shutil
import subprocess
import sys
import tempfile
import time

from vf import core

PY = sys.executable


def _run_batch(check, descs, env, timeout):
    """Run descs in worker subprocesses; survive worker death.  Returns (results, incidents)."""
    results, incidents = [], []
    todo = list(descs)
    while todo:
        d = tempfile.mkdtemp(prefix='vf_')
        try:
            inf, outf = os.path.join(d, 'in.json'), os.path.join(d, 'out.jsonl')
            with open(inf, 'w') as f:
                json.dump(todo, f)
            try:
                p = subprocess.run([PY, '-m', 'vf.worker', check, inf, outf], cwd=core.VERIF, env=env,
                                   stdout=subprocess.PIPE, stderr=subprocess.PIPE, timeout=timeout)
                rc, err = p.returncode, p.stderr.decode('utf8', 'replace')
            except subprocess.TimeoutExpired as e:
                rc, err = 'timeout', (e.stderr or b'').decode('utf8', 'replace')
            done, begun, got = False, -1, set()
            if os.path.exists(outf):
                with open(outf) as f:
                    for line in f:
                        try:
                            r = json.loads(line)
                        except ValueError:
                            continue
                        if 'begin' in r:
                            begun = r['begin']
                        elif 'done' in r:
                            done = True
                        else:
                            results.append(r)
                            got.add(r['i'])
            if done:
                todo = []
            else:
                bad = begun if begun not in got else begun + 1
                if bad < 0:
                    incidents.append({'reason': 'worker failed before first case rc=%s' % rc,
                                      'stderr': err[-4000:]})
                    todo = []
                else:
                    if bad < len(todo):
                        incidents.append({'reason': 'worker died/hung rc=%s' % rc, 'desc': todo[bad],
                                          'stderr': err[-4000:]})
                    todo = todo[bad + 1:]
        finally:
            shutil.rmtree(d, ignore_errors=True)
    return results, incidents


def main(argv=None):
    argv = list(sys.argv[1:] if argv is None else argv)
    if not argv:
        print('usage: check <ID> <quick|thorough> | check <ID> --replay <path>')
        return 2
    prop = argv[0].upper()
    replay = None
    tier = os.environ.get('VERIF_TIER', 'quick')
    jobs = int(os.environ.get('VERIF_JOBS', min(16, os.cpu_count() or 4)))
    i = 1
    while i < len(argv):
        if argv[i] == '--replay':
            replay = argv[i + 1]
            i += 2
        elif argv[i] == '--jobs':
            jobs = int(argv[i + 1])
            i += 2
        else:
            tier = argv[i]
            i += 1
    if tier not in ('quick', 'thorough'):
        print('unknown tier', tier)
        return 2
    seed = int(os.environ.get('VERIF_SEED', '0'))
    core.setup_path()
    mod = importlib.import_module('vf.checks.' + prop.lower())
    env = dict(os.environ)
    env.update({'PYTHONHASHSEED': '0', 'OMP_NUM_THREADS': '1', 'OPENBLAS_NUM_THREADS': '1',
                'MKL_NUM_THREADS': '1', 'PYTHONDONTWRITEBYTECODE': '1', core.GUARD: '1',
                'VERIF_REPO': core.REPO, 'PYTHONPATH': core.VERIF, 'VERIF_TIER': tier,
                'VERIF_SEED': str(seed)})
    t0 = time.time()
    if replay:
        with open(replay) as f:
            rp = json.load(f)
        descs = [rp.get('replay') or rp['desc']]
    else:
        descs = list(mod.cases(tier, seed))
    nb = getattr(mod, 'BATCHES_PER_JOB', 3)
    nbatch = max(1, min(len(descs), jobs * nb))
    batches = [descs[k::nbatch] for k in range(nbatch)]
    timeout = float(os.environ.get('VERIF_BATCH_TIMEOUT', 3600 if tier == 'quick' else 6 * 3600))
    results, incidents = [], []
    with concurrent.futures.ThreadPoolExecutor(max_workers=jobs) as ex:
        for res, inc in ex.map(lambda b: _run_batch(prop, b, env, timeout), batches):
            results += res
            incidents += inc

    # ---- aggregate ----
    counters, sigs, samples, viol, inconc = {}, set(), [], [], []
    viol_total = 0
    for r in results:
        for k, v in r['counters'].items():
            counters[k] = counters.get(k, 0) + v
        sigs.update(r['sigs'])
        if len(samples) < 8:
            samples += r['samples'][:2]
        for v in r['violations']:
            v['desc'] = r['desc']
            viol.append(v)
        viol_total += r.get('viol_total', 0)
        for x in r['inconclusive']:
            inconc.append({'reason': x, 'desc': r['desc']})
    for inc in incidents:
        inconc.append(inc)
    required = getattr(mod, 'REQUIRED', [])
    if not replay:
        for name in required:
            if counters.get(name, 0) <= 0:
                inconc.append({'reason': 'deciding monitor never evaluated: ' + name})
        if counters.get('evaluations', 0) <= 0:
            inconc.append({'reason': 'no evaluations'})

    # verdicts that only exist over the whole run (rates)
    if not replay and hasattr(mod, 'post_check'):
        for (mech, detail) in mod.post_check(counters, tier):
            viol.append({'mech': mech, 'detail': detail, 'desc': {'post_check': True}, 'replay': {'post_check': True}})
    known = core.load_known()
    by_mech = {}
    for v in viol:
        by_mech.setdefault(v['mech'], []).append(v)
    lines, n_unknown, known_seen = [], 0, []
    rdir = os.path.join(os.environ.get('VERIF_REPLAY_DIR') or os.path.join(core.VERIF, 'replays'), prop)
    for mech in sorted(by_mech):
        vs = by_mech[mech]
        k = core.classify(prop, mech, known)
        if k is not None:
            known_seen.append({'mech': mech, 'witnesses': len(vs)})
            lines.append('KNOWN-FINDING: property=%s %s [%s; %d witness(es) this run]'
                         % (prop, k.get('what', mech), mech, len(vs)))
            continue
        n_unknown += 1
        v = vs[0]
        os.makedirs(rdir, exist_ok=True)
        body = {'property': prop, 'mech': mech, 'detail': v['detail'], 'desc': v['desc'],
                'replay': v.get('replay') or v['desc'], 'witnesses_with_this_mechanism': len(vs)}
        sha = hashlib.sha1(json.dumps([mech, body['replay']], sort_keys=True).encode()).hexdigest()[:12]
        path = os.path.join(rdir, sha + '.json')
        with open(path, 'w') as f:
            json.dump(body, f, indent=1)
        lines.append('VIOLATION property=%s replay=%s mech=%s' % (prop, path, mech))

    wall = time.time() - t0
    verdict = 'violated' if n_unknown else ('inconclusive' if inconc else 'held')
    if not replay:
        cov = {
            'evaluations': counters.get('evaluations', 0),
            'distinct_nontrivial': len(sigs),
            'rule': mod.RULE,
            'samples': samples[:8],
            'monitors': {k: v for k, v in sorted(counters.items()) if k != 'evaluations'},
            'descriptors': len(descs),
        }
        exh = getattr(mod, 'EXHAUSTIVE', None)
        if exh:
            cov['exhaustive'] = bool(exh.get(tier, False)) if isinstance(exh, dict) else bool(exh)
            if getattr(mod, 'EXHAUSTIVE_NOTE', None):
                cov['exhaustive_note'] = mod.EXHAUSTIVE_NOTE
        if hasattr(mod, 'extra_coverage'):
            cov.update(mod.extra_coverage(counters, tier))
        ev = {
            'property_id': prop, 'tier': tier, 'seed': seed, 'level': mod.LEVEL, 'coverage': cov,
            'assumptions': list(getattr(mod, 'ASSUMPTIONS', [])), 'wall_s': round(wall, 2),
            'violations': n_unknown, 'verdict': verdict,
            'violation_witnesses_total': viol_total,
            'known_findings_observed': known_seen,
            'inconclusive': [core.jsonable(x) for x in inconc[:10]],
            'repo': core.REPO,
        }
        # self-tests against scratch copies divert the evidence so that evidence/ always describes /repo
        evdir = os.environ.get('VERIF_EVIDENCE_DIR') or os.path.join(core.VERIF, 'evidence')
        os.makedirs(evdir, exist_ok=True)
        tmp = os.path.join(evdir, '.%s.tmp' % prop)
        with open(tmp, 'w') as f:
            json.dump(ev, f, indent=1)
        os.replace(tmp, os.path.join(evdir, prop + '.json'))

    for ln in lines[:60]:
        print(ln)
    for x in inconc[:5]:
        print('INCONCLUSIVE property=%s reason=%s' % (prop, json.dumps(core.jsonable(x))[:1500]))
    print('%s %s tier=%s seed=%d evaluations=%d distinct_nontrivial=%d monitors=%s wall=%.1fs'
          % (prop, verdict.upper(), tier, seed, counters.get('evaluations', 0), len(sigs),
             json.dumps({k: v for k, v in sorted(counters.items()) if k != 'evaluations'}), wall))
    if n_unknown:
        return 1
    if inconc:
        return 3
    return 0


if __name__ == '__main__':
    sys.exit(main())
