"""Room generator for the lighthouse checks (C09, C15, C16): ground-truth poses and error-free measurements.
Everything here is computed with plain numpy from first principles (no library code)."""
import math
import random

import numpy as np

SENSORS = np.array([(-0.015, 0.0075, 0.0), (-0.015, -0.0075, 0.0), (0.015, 0.0075, 0.0), (0.015, -0.0075, 0.0)])


def rot_axis(axis, angle):
    axis = np.asarray(axis, dtype=float)
    axis = axis / np.linalg.norm(axis)
    K = np.array([[0, -axis[2], axis[1]], [axis[2], 0, -axis[0]], [-axis[1], axis[0], 0]])
    return np.eye(3) + math.sin(angle) * K + (1 - math.cos(angle)) * (K @ K)


def look_at(pos, target, roll):
    """Rotation whose x axis points from pos to target, z roughly up, rolled about x."""
    x = np.asarray(target, float) - np.asarray(pos, float)
    x /= np.linalg.norm(x)
    up = np.array([0.0, 0.0, 1.0])
    y = np.cross(up, x)
    y /= np.linalg.norm(y)
    z = np.cross(x, y)
    R = np.column_stack((x, y, z))
    return R @ rot_axis((1, 0, 0), roll)


def rot_angle(R):
    c = (np.trace(R) - 1) / 2
    return math.acos(max(-1.0, min(1.0, c)))


def room(seed, n_bs=None, n_cf=None, partial=False, split=False):
    """Returns dict with bs {id: (R, t)}, cf [(R, t)], visibility [[ids]...]."""
    rnd = random.Random(seed)
    n_bs = n_bs or rnd.randint(2, 6)
    n_cf = n_cf or rnd.randint(3, 40)
    ids = rnd.sample(range(16), n_bs)
    bs = {}
    for k, i in enumerate(ids):
        ang = 2 * math.pi * (k + rnd.uniform(-0.2, 0.2)) / n_bs
        dist = rnd.uniform(1.5, 4.0)
        pos = np.array([dist * math.cos(ang), dist * math.sin(ang), rnd.uniform(1.5, 3.0)])
        target = np.array([rnd.uniform(-0.3, 0.3), rnd.uniform(-0.3, 0.3), rnd.uniform(0.2, 0.8)])
        bs[i] = (look_at(pos, target, rnd.uniform(-0.2, 0.2)), pos)
    cf = []
    for _ in range(n_cf):
        pos = np.array([rnd.uniform(-1, 1), rnd.uniform(-1, 1), rnd.uniform(0.0, 1.0)])
        yaw = rnd.uniform(-math.pi, math.pi)
        tilt_axis = (math.cos(rnd.uniform(0, 6.28)), math.sin(rnd.uniform(0, 6.28)), 0)
        R = rot_axis((0, 0, 1), yaw) @ rot_axis(tilt_axis, rnd.uniform(0, 0.15))
        cf.append((R, pos))
    return {'bs': bs, 'cf': cf, 'ids': ids}


def sensor_dirs(bs_pose, cf_pose):
    """Direction vectors (bs frame) to the four sensors."""
    Rb, tb = bs_pose
    Rc, tc = cf_pose
    out = []
    for sp in SENSORS:
        pw = Rc @ sp + tc
        out.append(Rb.T @ (pw - tb))
    return out


def in_fov(dirs, h_lim=math.radians(60), v_lim=math.radians(50)):
    for d in dirs:
        if d[0] <= 0.1:
            return False
        if abs(math.atan2(d[1], d[0])) > h_lim or abs(math.atan2(d[2], d[0])) > v_lim:
            return False
    return True


def facing(bs_pose, cf_pose):
    """The deck's sensors look upwards: the base station must be above the deck plane."""
    Rb, tb = bs_pose
    Rc, tc = cf_pose
    n = Rc[:, 2]
    return float(np.dot(n, tb - tc)) > 0.2


def visibility(rm, partial_seed=None, drop=0.0):
    rnd = random.Random(partial_seed)
    vis = []
    for c in rm['cf']:
        seen = []
        for i in rm['ids']:
            d = sensor_dirs(rm['bs'][i], c)
            if in_fov(d) and facing(rm['bs'][i], c) and rnd.random() >= drop:
                seen.append(i)
        vis.append(seen)
    return vis


def components(ids, vis):
    parent = {i: i for i in ids}

    def find(a):
        while parent[a] != a:
            parent[a] = parent[parent[a]]
            a = parent[a]
        return a
    for seen in vis:
        if len(seen) >= 2:
            for b in seen[1:]:
                parent[find(b)] = find(seen[0])
    comps = {}
    for i in ids:
        comps.setdefault(find(i), []).append(i)
    return list(comps.values())


def axis_room(seed):
    """A tidy, axis-aligned installation: base stations at the middle of walls / in corners of a rectangular room, aimed at
    its centre without roll; the Crazyflie level, on a grid, with yaws that are exact multiples of 90 degrees; the first
    pose faces +X.  (Exact right angles are where sign conventions and branch cuts of rotations live.)"""
    rnd = random.Random(seed)
    hx, hy = rnd.choice((2.0, 2.5, 3.0)), rnd.choice((2.0, 2.5, 3.0))
    h = rnd.choice((2.0, 2.5, 3.0))
    spots = [(hx, 0.0), (-hx, 0.0), (0.0, hy), (0.0, -hy), (hx, hy), (-hx, hy), (hx, -hy), (-hx, -hy)]
    n_bs = rnd.randint(2, 4)
    chosen = rnd.sample(spots[:4], min(n_bs, 4)) if rnd.random() < 0.7 else rnd.sample(spots, n_bs)
    ids = rnd.sample(range(16), len(chosen))
    bs = {}
    for i, (x, y) in zip(ids, chosen):
        pos = np.array([x, y, h])
        bs[i] = (look_at(pos, (0.0, 0.0, 0.0), 0.0), pos)
    cf = []
    n_cf = rnd.choice((4, 6, 8, 12))
    grid = [(gx, gy) for gx in (-0.5, 0.0, 0.5) for gy in (-0.5, 0.0, 0.5)]
    for k in range(n_cf):
        gx, gy = grid[k % len(grid)] if k else (0.0, 0.0)
        yaw = 0.0 if k == 0 else rnd.choice((0.0, math.pi / 2, -math.pi / 2, math.pi))
        z = 0.0 if k % 2 == 0 else 0.25
        R = rot_axis((0, 0, 1), yaw) if yaw else np.eye(3)
        if k:
            # all poses exactly level would make the mirror ambiguity of a planar target unresolvable (outside the
            # envelope "roughly level ... small tilt"): every pose but the first gets a small tilt
            ta = rnd.uniform(0, 6.28)
            R = R @ rot_axis((math.cos(ta), math.sin(ta), 0), rnd.uniform(0.03, 0.15))
        cf.append((R, np.array([gx, gy, z])))
    return {'bs': bs, 'cf': cf, 'ids': ids}


def chain_room(seed):
    """Partial-visibility chain: Crazyflie pose k is seen by base stations k and k+1 only, so every base-station pair is
    seen in just one or two poses (the estimator's vote between the mirror solutions then rests on the order in which
    the planar pose solver returns them).  Poses keep 0.8 m away from the point midway between their two base stations,
    where the mirror image of one station falls onto the other (degenerate, outside the envelope)."""
    rnd = random.Random(seed)
    n_bs = rnd.randint(3, 6)
    n_cf = n_bs + rnd.randint(0, 2)
    ids = rnd.sample(range(16), n_bs)
    bs = {}
    for k, i in enumerate(ids):
        ang = 2 * math.pi * k / n_bs + rnd.uniform(-0.3, 0.3)
        dist = rnd.uniform(2.0, 3.0)
        pos = np.array([dist * math.cos(ang), dist * math.sin(ang), rnd.uniform(1.8, 3.0)])
        target = np.array([rnd.uniform(-0.3, 0.3), rnd.uniform(-0.3, 0.3), rnd.uniform(0.0, 0.5)])
        bs[i] = (look_at(pos, target, 0.0), pos)
    cf, vis = [], []
    # the order in which the pairs are visited: round the ring, or an open chain walked back and forth (a, b), (b, c),
    # (a, b), (b, c) ..., or any order
    order = rnd.choice(('ring', 'ring', 'back-and-forth', 'shuffled'))
    pairs = [(ids[k % n_bs], ids[(k + 1) % n_bs]) for k in range(n_cf)]
    if order == 'back-and-forth':
        links = [(ids[k], ids[k + 1]) for k in range(n_bs - 1)]
        if rnd.random() < 0.5:
            links = [(b_, a_) for (a_, b_) in links]
        pairs = links * 2
        n_cf = len(pairs)
    elif order == 'shuffled':
        rnd.shuffle(pairs)
    for k in range(n_cf):
        a, b = pairs[k]
        mid = (bs[a][1] + bs[b][1]) / 2
        while True:
            pos = np.array([rnd.uniform(-1, 1), rnd.uniform(-1, 1), rnd.uniform(0.0, 1.0)])
            if np.linalg.norm((pos - mid)[:2]) > 0.8:
                break
        yaw = rnd.uniform(-math.pi, math.pi)
        ta = rnd.uniform(0, 6.28)
        R = rot_axis((0, 0, 1), yaw) @ rot_axis((math.cos(ta), math.sin(ta), 0), rnd.uniform(0, 0.15))
        cf.append((R, pos))
        vis.append([a, b])
    return {'bs': bs, 'cf': cf, 'ids': ids, 'vis': vis, 'order': order}
