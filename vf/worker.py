"""Worker process: runs a batch of case descriptors of one check and streams results."""
import faulthandler
import json
import os
import sys
import time
import traceback

from vf import core


def main():
    check, infile, outfile = sys.argv[1:4]
    core.setup_path()
    import importlib
    mod = importlib.import_module('vf.checks.' + check.lower())
    core.assert_repo_resolution()
    with open(infile) as f:
        descs = json.load(f)
    per_desc_timeout = float(os.environ.get('VERIF_DESC_TIMEOUT', getattr(mod, 'DESC_TIMEOUT', 600)))
    out = open(outfile, 'w')
    if hasattr(mod, 'worker_init'):
        mod.worker_init()
    for i, desc in enumerate(descs):
        out.write(json.dumps({'begin': i}) + '\n')
        out.flush()
        faulthandler.dump_traceback_later(per_desc_timeout, exit=True)
        ctx = core.Ctx(desc)
        t0 = time.time()
        try:
            mod.run(desc, ctx)
        except BaseException as e:  # noqa
            mech = core.exc_mech(e)
            tb = traceback.format_exc()
            if mech is not None and not isinstance(e, (KeyboardInterrupt, SystemExit)):
                ctx.violate('escaped-' + mech, {'traceback': tb[-3000:]})
            else:
                ctx.inconclusive_('harness error: ' + tb[-3000:])
        faulthandler.cancel_dump_traceback_later()
        d = ctx.dump()
        d['wall'] = time.time() - t0
        d['i'] = i
        out.write(json.dumps(d) + '\n')
        out.flush()
    out.write(json.dumps({'done': True}) + '\n')
    out.flush()
    out.close()
    sys.stdout.flush()
    sys.stderr.flush()
    os._exit(0)


if __name__ == '__main__':
    main()
