"""detsched - deterministic scheduler and virtual clock driving the library's REAL threads.

Only the thread holding the baton executes; every other managed thread is parked on a private
real semaphore.  Scheduling decisions and the virtual clock are pure functions of the seed, so
every interleaving found is replayable.  Blocking primitives used by the library (Lock, Event,
Queue, Timer, time.sleep, Thread.start/join ...) are replaced by simulated counterparts whose
waits are scheduling points; optionally every source line of the library is one too
(sys.monitoring LINE events), which exposes check-then-use races on plain attributes.
"""
import collections
import hashlib
import os
import queue as _queue
import random
import sys
import threading as _th
import time as _time
import traceback
import types

REAL = {
    'Lock': _th.Lock, 'RLock': _th.RLock, 'Event': _th.Event, 'Condition': _th.Condition,
    'Semaphore': _th.Semaphore, 'BoundedSemaphore': _th.BoundedSemaphore, 'Timer': _th.Timer,
    'Queue': _queue.Queue, 'LifoQueue': _queue.LifoQueue, 'PriorityQueue': _queue.PriorityQueue,
    'SimpleQueue': _queue.SimpleQueue,
    'sleep': _time.sleep, 'time': _time.time, 'monotonic': _time.monotonic, 'perf_counter': _time.perf_counter,
}
_orig_start = _th.Thread.start
_orig_join = _th.Thread.join
_orig_is_alive = _th.Thread.is_alive
_RealSemaphore = _th.Semaphore

EPOCH = 1000.0
CUR = None            # the active Scheduler (one per process at a time)
REPO_PREFIXES = ()    # set by install()


class ThreadKilled(BaseException):
    """Raised inside leaked library threads at the end of a case to retire them."""


class SchedAbort(BaseException):
    """Base of verdict exceptions delivered to the harness (main) thread.  BaseException so
    that the library's own `except Exception` clauses cannot swallow a verdict."""

    def __init__(self, msg, table=None):
        BaseException.__init__(self, msg)
        self.table = table or []


class Deadlock(SchedAbort):
    pass


class HorizonExceeded(SchedAbort):
    pass


class StepBudget(SchedAbort):
    pass


class _Rec:
    __slots__ = ('idx', 'name', 'thread', 'go', 'state', 'waiting_on', 'deadline', 'wake_reason', 'prio',
                 'pending_exc', 'exited', 'is_main', 'died')

    def __init__(self, idx, name, thread, is_main=False):
        self.idx = idx
        self.name = name
        self.thread = thread
        self.go = _RealSemaphore(0)
        self.state = 'runnable'
        self.waiting_on = None
        self.deadline = None
        self.wake_reason = None
        self.prio = 0.0
        self.pending_exc = None
        self.exited = _RealSemaphore(0)
        self.is_main = is_main
        self.died = None


class Scheduler:
    def __init__(self, seed=0, policy='random', p_switch=0.25, line_p=0.0, horizon=600.0,
                 max_steps=2_000_000, pct_depth=2, pct_steps=2000, trace=False, line_focus=(), line_focus_p=0.0):
        self.rng = random.Random(seed)
        # statements of the functions named in line_focus are pre-empted with line_focus_p instead of line_p (stress on
        # the code paths a workload is about, e.g. everything that runs while a link is being closed)
        self.line_focus = frozenset(line_focus)
        self.line_focus_p = line_focus_p
        self.focus_points = 0
        self.seed = seed
        self.policy = policy
        self.p_switch = p_switch
        self.line_p = line_p
        self.horizon = horizon
        self.max_steps = max_steps
        self.now = 0.0
        self.steps = 0
        self.switches = 0
        self.recs = []
        self.by_thread = {}
        self.cur = None
        self.main = None
        self.killing = False
        self.deaths = []           # (thread name, exc repr, traceback)
        self.leaked = []
        self._sig = hashlib.blake2b(digest_size=8)
        self.trace = [] if trace else None
        self.lines_seen = set() if line_p > 0 else None
        self.line_points = 0
        self._pct_points = sorted(self.rng.randrange(pct_steps) for _ in range(pct_depth)) if policy == 'pct' else []
        self._aborted = None

    # ------------------------------------------------------------------ running
    def run(self, fn):
        global CUR
        if CUR is not None:
            raise RuntimeError('nested scheduler')
        me = _th.current_thread()
        rec = _Rec(0, 'main', me, is_main=True)
        rec.prio = self.rng.random()
        self.recs.append(rec)
        self.by_thread[me] = rec
        self.cur = rec
        self.main = rec
        CUR = self
        if self.line_p > 0:
            _lines_on()
        try:
            return fn()
        finally:
            try:
                self._kill_all()
            finally:
                if self.line_p > 0:
                    _lines_off()
                CUR = None

    def me(self):
        return self.by_thread.get(_th.current_thread())

    def managed(self):
        return _th.current_thread() in self.by_thread

    def signature(self):
        return self._sig.hexdigest()

    def table(self):
        out = []
        for r in self.recs:
            if r.state == 'done':
                continue
            w = r.waiting_on
            out.append({'thread': r.name, 'state': r.state, 'waiting_on': _describe(w),
                        'deadline': r.deadline})
        return out

    # ------------------------------------------------------------------ core
    def _check_wake(self, me):
        if self.killing and not me.is_main:
            raise ThreadKilled()
        if me.pending_exc is not None:
            e, me.pending_exc = me.pending_exc, None
            raise e

    def _handoff(self, me, nxt):
        """Give the baton to nxt and park until it comes back."""
        if nxt is me:
            return
        self.switches += 1
        self._sig.update(bytes((nxt.idx & 0xFF,)))
        if self.trace is not None and len(self.trace) < 20000:
            self.trace.append((self.steps, round(self.now, 6), nxt.name))
        self.cur = nxt
        nxt.go.release()
        me.go.acquire()
        self.cur = me

    def _runnable(self):
        return [r for r in self.recs if r.state == 'runnable']

    def _choose(self, cands):
        if len(cands) == 1:
            return cands[0]
        if self.policy == 'pct':
            return max(cands, key=lambda r: r.prio)
        return cands[self.rng.randrange(len(cands))]

    def _abort_main(self, exc):
        """Deliver a verdict exception to the harness thread and make it runnable."""
        if self._aborted is None:
            self._aborted = exc
        m = self.main
        m.pending_exc = exc
        if m.state != 'runnable':
            m.state = 'runnable'
            m.deadline = None
            m.wake_reason = 'abort'
        return m

    def _next_after_block(self, me):
        """me is blocked or done: find who runs next, advancing virtual time if needed."""
        while True:
            cands = self._runnable()
            if cands:
                return self._choose(cands)
            timed = [r for r in self.recs if r.state == 'blocked' and r.deadline is not None]
            if not timed:
                return self._abort_main(Deadlock('deadlock: no runnable thread and no timed waiter', self.table()))
            t = min(r.deadline for r in timed)
            if t > self.horizon:
                return self._abort_main(HorizonExceeded('virtual-time horizon %.1fs exceeded' % self.horizon,
                                                        self.table()))
            if t > self.now:
                self.now = t
            for r in timed:
                if r.deadline <= self.now:
                    r.state = 'runnable'
                    r.deadline = None
                    r.wake_reason = 'timeout'

    def _step(self, me):
        self.steps += 1
        if self.steps > self.max_steps and self._aborted is None:
            nxt = self._abort_main(StepBudget('step budget %d exceeded' % self.max_steps, self.table()))
            if nxt is not me:
                self._handoff(me, nxt)
            self._check_wake(me)
        if self._pct_points and self.steps >= self._pct_points[0]:
            self._pct_points.pop(0)
            me.prio = -self.rng.random()

    def pct_rearm(self, depth=1, window=2000):
        """PCT: draw `depth` new priority-change points among the next `window` steps (the initial ones are usually used up by
        the connection set-up; a workload re-arms them where the phase it is about begins)."""
        if self.policy == 'pct':
            self._pct_points = sorted(self.steps + 1 + self.rng.randrange(window) for _ in range(depth))

    def point(self, force=False):
        """Non-blocking scheduling point."""
        me = self.me()
        if me is None:
            return
        self._check_wake(me)
        self._step(me)
        if self.policy == 'rtb' and not force:
            return
        if self.policy == 'pct':
            nxt = self._choose(self._runnable())
        else:
            if not force and self.rng.random() >= self.p_switch:
                return
            nxt = self._choose(self._runnable())
        if nxt is not me:
            self._handoff(me, nxt)
            self._check_wake(me)

    def block(self, what, timeout=None):
        """Block the calling thread until wake()d or until the virtual timeout.  Returns reason."""
        me = self.me()
        if me is None:
            raise RuntimeError('simulated blocking primitive used from an unmanaged thread')
        self._check_wake(me)
        self._step(me)
        me.state = 'blocked'
        me.waiting_on = what
        me.deadline = None if timeout is None else self.now + max(0.0, timeout)
        me.wake_reason = None
        nxt = self._next_after_block(me)
        if nxt is not me:
            self._handoff(me, nxt)
        me.waiting_on = None
        self._check_wake(me)
        return me.wake_reason

    def wake(self, rec, reason='notified'):
        if rec.state == 'blocked':
            rec.state = 'runnable'
            rec.deadline = None
            rec.wake_reason = reason

    def wake_waiters(self, obj, reason='notified'):
        n = 0
        for r in self.recs:
            if r.state == 'blocked' and r.waiting_on is not None and r.waiting_on[1] is obj:
                self.wake(r, reason)
                n += 1
        return n

    def sleep(self, d):
        if d is None or d <= 0:
            self.point()
            return
        self.block(('sleep', None), d)

    # ------------------------------------------------------------------ threads
    def start_thread(self, th):
        me = self.me()
        rec = _Rec(len(self.recs), '%s#%d' % (type(th).__name__ if type(th) is not _th.Thread else
                                              getattr(getattr(th, '_target', None), '__name__', 'Thread'),
                                              len(self.recs)), th)
        rec.prio = self.rng.random()
        self.recs.append(rec)
        self.by_thread[th] = rec
        th._vf_rec = rec
        sched = self
        orig_run = th.run

        def boot():
            rec.go.acquire()
            sched.cur = rec
            try:
                if not sched.killing:
                    orig_run()
            except ThreadKilled:
                pass
            except BaseException as e:  # noqa - thread death is an observation
                rec.died = e
                sched.deaths.append((rec.name, repr(e), traceback.format_exc()[-2500:]))
            finally:
                sched._thread_exit(rec)
        th.run = boot
        th.daemon = True
        _orig_start(th)
        if me is not None:
            self.point()

    def _thread_exit(self, rec):
        rec.state = 'done'
        self.wake_waiters(rec.thread, 'joined')
        if self.killing:
            rec.exited.release()
            return
        nxt = self._next_after_block(rec)
        self.switches += 1
        self._sig.update(bytes((nxt.idx & 0xFF,)))
        self.cur = nxt
        rec.exited.release()
        nxt.go.release()

    def join_thread(self, th, timeout=None):
        rec = self.by_thread.get(th)
        me = self.me()
        if rec is None:
            if getattr(th, '_started', None) is not None and not th._started.is_set():
                raise RuntimeError('cannot join thread before it is started')
            return
        if rec is me:
            raise RuntimeError('cannot join current thread')
        self.point()
        if rec.state == 'done':
            return
        deadline = None if timeout is None else self.now + timeout
        while rec.state != 'done':
            rem = None if deadline is None else deadline - self.now
            if rem is not None and rem <= 0:
                return
            if self.block(('join', th), rem) == 'timeout':
                return

    def alive(self, th):
        rec = self.by_thread.get(th)
        return rec is not None and rec.state != 'done'

    def _kill_all(self):
        self.killing = True
        me = self.me()
        for r in self.recs:
            if r is me or r.state == 'done':
                continue
            r.state = 'runnable'
            r.go.release()
            if not r.exited.acquire(timeout=5.0):
                self.leaked.append(r.name)
        self.cur = me

    # ------------------------------------------------------------------ lines
    def line_point(self, code, line):
        me = self.by_thread.get(_th.current_thread())
        if me is None or me is not self.cur:
            return
        if self.lines_seen is not None:
            self.lines_seen.add((code.co_filename, line))
        if self.killing:
            if not me.is_main:
                raise ThreadKilled()
            return
        self.line_points += 1
        p = self.line_p
        if self.line_focus and code.co_name in self.line_focus:
            p = max(p, self.line_focus_p)
            self.focus_points += 1
        if self.rng.random() < p:
            self.point(force=True)


def _describe(w):
    if w is None:
        return None
    kind, obj = w
    d = kind
    if obj is not None:
        d += ' ' + (getattr(obj, '_vf_name', None) or type(obj).__name__)
        own = getattr(obj, '_owner', None)
        if own is not None:
            d += ' held-by ' + own.name
    return d


# ====================================================================== simulated primitives
def _s():
    s = CUR
    if s is None:
        raise RuntimeError('simulated primitive used without an active scheduler')
    return s


class SimLock:
    _vf_kind = 'Lock'

    def __init__(self):
        self._owner = None
        self._vf_name = None

    def acquire(self, blocking=True, timeout=-1):
        s = _s()
        s.point()
        me = s.me()
        deadline = None if (timeout is None or timeout < 0) else s.now + timeout
        while self._owner is not None:
            if not blocking:
                return False
            rem = None if deadline is None else deadline - s.now
            if rem is not None and rem <= 0:
                return False
            s.block(('lock', self), rem)
        self._owner = me if me is not None else True
        return True

    def release(self):
        s = CUR
        if self._owner is None:
            raise RuntimeError('release unlocked lock')
        self._owner = None
        if s is None:
            return
        s.wake_waiters(self)
        if not s.killing:
            s.point()

    def locked(self):
        return self._owner is not None

    __enter__ = acquire

    def __exit__(self, *a):
        self.release()


class SimRLock:
    def __init__(self):
        self._owner = None
        self._count = 0
        self._vf_name = None

    def acquire(self, blocking=True, timeout=-1):
        s = _s()
        me = s.me()
        if self._owner is me:
            self._count += 1
            return True
        s.point()
        deadline = None if (timeout is None or timeout < 0) else s.now + timeout
        while self._owner is not None:
            if not blocking:
                return False
            rem = None if deadline is None else deadline - s.now
            if rem is not None and rem <= 0:
                return False
            s.block(('rlock', self), rem)
        self._owner = me
        self._count = 1
        return True

    def release(self):
        s = CUR
        if s is not None and s.me() is not self._owner and not s.killing:
            raise RuntimeError('cannot release un-acquired lock')
        self._count -= 1
        if self._count <= 0:
            self._owner = None
            self._count = 0
            if s is not None:
                s.wake_waiters(self)
                if not s.killing:
                    s.point()

    __enter__ = acquire

    def __exit__(self, *a):
        self.release()

    def _is_owned(self):
        return CUR is not None and self._owner is CUR.me()

    def locked(self):
        return self._owner is not None


class SimEvent:
    def __init__(self):
        self._flag = False
        self._vf_name = None

    def is_set(self):
        return self._flag

    isSet = is_set

    def set(self):
        self._flag = True
        s = CUR
        if s is not None:
            s.wake_waiters(self)
            if not s.killing:
                s.point()

    def clear(self):
        self._flag = False

    def wait(self, timeout=None):
        s = _s()
        s.point()
        deadline = None if timeout is None else s.now + timeout
        while not self._flag:
            rem = None if deadline is None else deadline - s.now
            if rem is not None and rem <= 0:
                break
            s.block(('event', self), rem)
        return self._flag


class SimSemaphore:
    def __init__(self, value=1):
        if value < 0:
            raise ValueError('semaphore initial value must be >= 0')
        self._value = value
        self._vf_name = None

    def acquire(self, blocking=True, timeout=None):
        s = _s()
        s.point()
        deadline = None if timeout is None else s.now + timeout
        while self._value <= 0:
            if not blocking:
                return False
            rem = None if deadline is None else deadline - s.now
            if rem is not None and rem <= 0:
                return False
            s.block(('semaphore', self), rem)
        self._value -= 1
        return True

    def release(self, n=1):
        self._value += n
        s = CUR
        if s is not None:
            s.wake_waiters(self)
            if not s.killing:
                s.point()

    __enter__ = acquire

    def __exit__(self, *a):
        self.release()


class SimBoundedSemaphore(SimSemaphore):
    def __init__(self, value=1):
        SimSemaphore.__init__(self, value)
        self._initial = value

    def release(self, n=1):
        if self._value + n > self._initial:
            raise ValueError('Semaphore released too many times')
        SimSemaphore.release(self, n)


class SimCondition:
    def __init__(self, lock=None):
        self._lock = lock if lock is not None else SimRLock()
        self.acquire = self._lock.acquire
        self.release = self._lock.release
        self._waiters = []
        self._vf_name = None

    def __enter__(self):
        return self._lock.__enter__()

    def __exit__(self, *a):
        return self._lock.__exit__(*a)

    def wait(self, timeout=None):
        s = _s()
        tok = [False]
        self._waiters.append(tok)
        # release fully
        saved = None
        if isinstance(self._lock, SimRLock):
            saved = self._lock._count
            self._lock._count = 1
        self._lock.release()
        deadline = None if timeout is None else s.now + timeout
        try:
            while not tok[0]:
                rem = None if deadline is None else deadline - s.now
                if rem is not None and rem <= 0:
                    break
                s.block(('condition', self), rem)
        finally:
            if tok in self._waiters:
                self._waiters.remove(tok)
            self._lock.acquire()
            if saved is not None:
                self._lock._count = saved
        return tok[0]

    def wait_for(self, predicate, timeout=None):
        s = _s()
        end = None if timeout is None else s.now + timeout
        r = predicate()
        while not r:
            rem = None if end is None else end - s.now
            if rem is not None and rem <= 0:
                break
            self.wait(rem)
            r = predicate()
        return r

    def notify(self, n=1):
        for tok in self._waiters[:n]:
            tok[0] = True
        del self._waiters[:n]
        s = CUR
        if s is not None:
            s.wake_waiters(self)

    def notify_all(self):
        self.notify(len(self._waiters))

    notifyAll = notify_all


class SimQueue:
    """queue.Queue with virtual-time blocking."""

    def __init__(self, maxsize=0):
        self.maxsize = maxsize
        self._init()
        self._unfinished = 0
        self._vf_name = None

    def _init(self):
        self.queue = collections.deque()

    def _put(self, item):
        self.queue.append(item)

    def _get(self):
        return self.queue.popleft()

    def qsize(self):
        return len(self.queue)

    def empty(self):
        return not self.queue

    def full(self):
        return 0 < self.maxsize <= len(self.queue)

    def put(self, item, block=True, timeout=None):
        s = _s()
        s.point()
        if self.maxsize > 0:
            deadline = None if timeout is None else s.now + timeout
            while len(self.queue) >= self.maxsize:
                if not block:
                    raise _queue.Full
                rem = None if deadline is None else deadline - s.now
                if rem is not None and rem <= 0:
                    raise _queue.Full
                s.block(('queue-put', self), rem)
        self._put(item)
        self._unfinished += 1
        s.wake_waiters(self)
        if not s.killing:
            s.point()

    def get(self, block=True, timeout=None):
        s = _s()
        s.point()
        if timeout is not None and timeout < 0:
            raise ValueError("'timeout' must be a non-negative number")
        deadline = None if timeout is None else s.now + timeout
        while not self.queue:
            if not block:
                raise _queue.Empty
            rem = None if deadline is None else deadline - s.now
            if rem is not None and rem <= 0:
                raise _queue.Empty
            s.block(('queue-get', self), rem)
        item = self._get()
        if self.maxsize > 0:
            s.wake_waiters(self)
        return item

    def put_nowait(self, item):
        return self.put(item, block=False)

    def get_nowait(self):
        return self.get(block=False)

    def task_done(self):
        self._unfinished -= 1
        if self._unfinished <= 0:
            s = CUR
            if s is not None:
                s.wake_waiters(self)

    def join(self):
        s = _s()
        while self._unfinished > 0:
            s.block(('queue-join', self), None)


class SimLifoQueue(SimQueue):
    def _init(self):
        self.queue = []

    def _put(self, item):
        self.queue.append(item)

    def _get(self):
        return self.queue.pop()


class SimPriorityQueue(SimQueue):
    def _init(self):
        self.queue = []

    def _put(self, item):
        import heapq
        heapq.heappush(self.queue, item)

    def _get(self):
        import heapq
        return heapq.heappop(self.queue)


class SimTimer(_th.Thread):
    """threading.Timer on the virtual clock (a managed thread, like the real one)."""

    def __init__(self, interval, function, args=None, kwargs=None):
        _th.Thread.__init__(self)
        self.interval = interval
        self.function = function
        self.args = args if args is not None else []
        self.kwargs = kwargs if kwargs is not None else {}
        self.finished = Event()
        s = CUR
        if s is not None:
            s_timers = getattr(s, 'timers', None)
            if s_timers is None:
                s_timers = s.timers = []
            s_timers.append(self)
        self.created_at = s.now if s is not None else None
        self.fired_at = None
        self.cancelled_at = None

    def cancel(self):
        if self.cancelled_at is None and CUR is not None:
            self.cancelled_at = CUR.now
        self.finished.set()

    def run(self):
        self.finished.wait(self.interval)
        if not self.finished.is_set():
            if CUR is not None:
                self.fired_at = CUR.now
            self.function(*self.args, **self.kwargs)
        self.finished.set()


# ---------------------------------------------------------------- factories (real when no scheduler)
def _factory(sim, real_name):
    def make(*a, **k):
        if CUR is not None and CUR.managed():
            return sim(*a, **k)
        return REAL[real_name](*a, **k)
    make.__name__ = real_name
    make._vf_sim = sim
    return make


Lock = _factory(SimLock, 'Lock')
RLock = _factory(SimRLock, 'RLock')
Event = _factory(SimEvent, 'Event')
Condition = _factory(SimCondition, 'Condition')
Semaphore = _factory(SimSemaphore, 'Semaphore')
BoundedSemaphore = _factory(SimBoundedSemaphore, 'BoundedSemaphore')
Queue = _factory(SimQueue, 'Queue')
LifoQueue = _factory(SimLifoQueue, 'LifoQueue')
PriorityQueue = _factory(SimPriorityQueue, 'PriorityQueue')
SimpleQueue = _factory(SimQueue, 'SimpleQueue')
Timer = _factory(SimTimer, 'Timer')


def v_sleep(d):
    if d is not None and d < 0:
        raise ValueError('sleep length must be non-negative')
    if CUR is not None and CUR.managed():
        CUR.sleep(d)
    else:
        REAL['sleep'](d)


def v_time():
    if CUR is not None:
        return EPOCH + CUR.now
    return REAL['time']()


def v_monotonic():
    if CUR is not None:
        return CUR.now
    return REAL['monotonic']()


def _shim(real_mod, overrides):
    m = types.ModuleType(real_mod.__name__)
    m.__dict__.update({k: v for k, v in real_mod.__dict__.items() if not k.startswith('__')})
    m.__dict__.update(overrides)
    m._vf_shim_of = real_mod
    return m


time_shim = _shim(_time, {'sleep': v_sleep, 'time': v_time, 'monotonic': v_monotonic, 'perf_counter': v_monotonic,
                          'time_ns': lambda: int(v_time() * 1e9), 'monotonic_ns': lambda: int(v_monotonic() * 1e9)})
threading_shim = _shim(_th, {'Lock': Lock, 'RLock': RLock, 'Event': Event, 'Condition': Condition,
                             'Semaphore': Semaphore, 'BoundedSemaphore': BoundedSemaphore, 'Timer': Timer})
queue_shim = _shim(_queue, {'Queue': Queue, 'LifoQueue': LifoQueue, 'PriorityQueue': PriorityQueue,
                            'SimpleQueue': SimpleQueue})

_BY_IDENTITY = None


def _identity_map():
    global _BY_IDENTITY
    if _BY_IDENTITY is None:
        _BY_IDENTITY = [
            (_th.Lock, Lock), (_th.RLock, RLock), (_th.Event, Event), (_th.Condition, Condition),
            (_th.Semaphore, Semaphore), (_th.BoundedSemaphore, BoundedSemaphore), (_th.Timer, Timer),
            (_queue.Queue, Queue), (_queue.LifoQueue, LifoQueue), (_queue.PriorityQueue, PriorityQueue),
            (_queue.SimpleQueue, SimpleQueue),
            (_time.sleep, v_sleep), (_time.time, v_time), (_time.monotonic, v_monotonic),
            (_time.perf_counter, v_monotonic),
            (_time, time_shim), (_th, threading_shim), (_queue, queue_shim),
        ]
    return _BY_IDENTITY


# ---------------------------------------------------------------- Thread class patches
def _p_start(self):
    s = CUR
    if s is not None and s.managed() and s.killing and not s.me().is_main:
        raise ThreadKilled()
    if s is not None and s.managed() and not s.killing:
        if getattr(self, '_vf_rec', None) is not None or self._started.is_set():
            raise RuntimeError('threads can only be started once')
        return s.start_thread(self)
    return _orig_start(self)


def _p_join(self, timeout=None):
    s = CUR
    if s is not None and s.managed():
        if s.killing:
            return
        return s.join_thread(self, timeout)
    return _orig_join(self, timeout)


def _p_is_alive(self):
    s = CUR
    if s is not None and self in s.by_thread:
        return s.alive(self)
    if getattr(self, '_vf_rec', None) is not None:
        return False
    return _orig_is_alive(self)


_installed = False
_TOOL = 3


def _on_line(code, line):
    s = CUR
    if s is None or s.line_p <= 0:
        return sys.monitoring.DISABLE
    if not code.co_filename.startswith(REPO_PREFIXES):
        return sys.monitoring.DISABLE
    s.line_point(code, line)


def _lines_on():
    mon = sys.monitoring
    if mon.get_tool(_TOOL) is None:
        mon.use_tool_id(_TOOL, 'vf-detsched')
        mon.register_callback(_TOOL, mon.events.LINE, _on_line)
    mon.set_events(_TOOL, mon.events.LINE)
    mon.restart_events()


def _lines_off():
    sys.monitoring.set_events(_TOOL, 0)


def install(repo, packages=('cflib', 'lpslib'), extra_modules=()):
    """Import every module of the library and substitute blocking primitives by identity."""
    global _installed, REPO_PREFIXES
    import importlib
    import pkgutil
    REPO_PREFIXES = tuple(os.path.join(repo, p) + os.sep for p in packages)
    mods = []
    for pkg in packages:
        try:
            p = importlib.import_module(pkg)
        except Exception:
            continue
        mods.append(p)
        for mi in pkgutil.walk_packages(p.__path__, pkg + '.'):
            try:
                mods.append(importlib.import_module(mi.name))
            except BaseException:
                pass
    mods += list(extra_modules)
    n = substitute(mods)
    if not _installed:
        _th.Thread.start = _p_start
        _th.Thread.join = _p_join
        _th.Thread.is_alive = _p_is_alive
        _installed = True
    return n


def substitute(mods):
    idm = _identity_map()
    n = 0
    for m in mods:
        for k, v in list(vars(m).items()):
            for real, sim in idm:
                if v is real:
                    setattr(m, k, sim)
                    n += 1
                    break
    return n
