"""Shared harness helpers for scheduler-driven checks."""
import logging
import warnings

from vf import core

_ready = False


def init():
    """Import the library from the tree under test and attach the instrumentation (once per process)."""
    global _ready
    if _ready:
        return
    core.setup_path()
    warnings.filterwarnings('ignore')
    logging.disable(logging.CRITICAL)
    from vf import detsched as ds
    import cflib.crtp  # noqa
    ds.install(core.REPO)
    from vf import simlink
    simlink.register()
    _ready = True


class Recorder:
    """Records invocations of the public Caller objects of a Crazyflie with virtual time and thread."""

    NAMES = ('connection_requested', 'link_established', 'connected', 'fully_connected', 'connection_failed',
             'disconnected', 'connection_lost', 'disconnected_link_error')

    def __init__(self, cf, on_event=None):
        from vf import detsched as ds
        self.events = []
        self.on_event = on_event
        self._ds = ds
        for name in self.NAMES:
            getattr(cf, name).add_callback(self._mk(name))

    def _mk(self, name):
        def cb(*args):
            s = self._ds.CUR
            me = s.me() if s is not None else None
            ev = (name, s.now if s is not None else 0.0, me.name if me is not None else '?',
                  tuple(a if isinstance(a, (int, float)) else str(a)[:80] for a in args))
            self.events.append(ev)
            if self.on_event is not None:
                self.on_event(ev)
        cb.__name__ = 'rec_' + name
        return cb

    def names(self):
        return [e[0] for e in self.events]


def sched_case(fn, seed=0, policy='random', p_switch=0.25, line_p=0.0, horizon=300.0, max_steps=3_000_000,
               trace=False, line_focus=(), line_focus_p=0.0):
    """Run fn(sched) under a fresh scheduler.  Returns (result, abort, sched)."""
    from vf import detsched as ds
    s = ds.Scheduler(seed=seed, policy=policy, p_switch=p_switch, line_p=line_p, horizon=horizon,
                     max_steps=max_steps, trace=trace, line_focus=line_focus, line_focus_p=line_focus_p)
    box = {}

    def body():
        try:
            box['result'] = fn(s)
        except ds.SchedAbort as e:
            box['abort'] = e
    s.run(body)
    return box.get('result'), box.get('abort'), s


def line_p_for(seed, every=6, p=0.15):
    """Statement-level pre-emption probability for this case: one case in `every` is run with LINE-event
    pre-emption (threads may be switched between any two statements), the others switch at blocking calls."""
    return p if seed % every == every - 1 else 0.0
