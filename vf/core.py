"""Core of the runtime-monitoring harness: per-case context, verdict bookkeeping,
known-finding classification.  Pure stdlib, importable before the library is."""
import hashlib
import json
import os
import sys
import traceback

VERIF = os.path.dirname(os.path.dirname(os.path.abspath(__file__)))
REPO = os.path.abspath(os.environ.get('VERIF_REPO', '/repo'))
DEPS = os.path.join(VERIF, '.deps')
GUARD = 'CFLIB_VERIF'


def setup_path():
    """Make `import cflib` resolve to the working tree under test."""
    os.environ[GUARD] = '1'
    sys.dont_write_bytecode = True
    for p in (REPO, ):
        if p in sys.path:
            sys.path.remove(p)
    sys.path.insert(0, REPO)
    if os.path.isdir(DEPS) and DEPS not in sys.path:
        sys.path.append(DEPS)


def assert_repo_resolution():
    import cflib
    got = os.path.dirname(os.path.dirname(os.path.abspath(cflib.__file__)))
    if os.path.realpath(got) != os.path.realpath(REPO):
        raise RuntimeError('cflib resolves to %s, expected %s' % (got, REPO))


def h64(obj):
    """Stable 64-bit hash of a JSON-able object / bytes / str."""
    if isinstance(obj, (bytes, bytearray)):
        b = bytes(obj)
    elif isinstance(obj, str):
        b = obj.encode('utf8', 'surrogatepass')
    else:
        b = json.dumps(obj, sort_keys=True, default=repr).encode()
    return int.from_bytes(hashlib.blake2b(b, digest_size=8).digest(), 'big')


def jsonable(o, depth=0):
    """Best-effort conversion of witnesses to JSON."""
    if depth > 8:
        return repr(o)
    if o is None or isinstance(o, (bool, int, str)):
        return o
    if isinstance(o, float):
        if o != o or o in (float('inf'), float('-inf')):
            return repr(o)
        return o
    if isinstance(o, (bytes, bytearray)):
        return 'hex:' + bytes(o).hex()
    if isinstance(o, dict):
        return {str(k): jsonable(v, depth + 1) for k, v in o.items()}
    if isinstance(o, (list, tuple, set, frozenset)):
        return [jsonable(v, depth + 1) for v in o]
    try:
        import numpy as np
        if isinstance(o, np.ndarray):
            return jsonable(o.tolist(), depth + 1)
        if isinstance(o, np.generic):
            return jsonable(o.item(), depth + 1)
    except Exception:
        pass
    return repr(o)


class Ctx:
    """Per-descriptor recorder handed to a check's run()."""

    MAX_SAMPLES = 4
    MAX_VIOL = 40

    def __init__(self, desc):
        self.desc = desc
        self.counters = {}
        self.sigs = set()
        self.samples = []
        self.violations = []
        self.viol_total = 0
        self.inconclusive = []

    def count(self, name, n=1):
        self.counters[name] = self.counters.get(name, 0) + n

    def evals(self, n=1):
        self.count('evaluations', n)

    def nontrivial(self, sig):
        """Register one distinct non-trivial case by its signature."""
        self.sigs.add(sig if isinstance(sig, int) else h64(sig))

    def sample(self, obj):
        if len(self.samples) < self.MAX_SAMPLES:
            self.samples.append(jsonable(obj))

    def violate(self, mech, detail=None, replay=None):
        """mech: stable mechanism key (no seeds/hashes); detail: the witness."""
        self.viol_total += 1
        self._per_mech = getattr(self, '_per_mech', {})
        self._per_mech[mech] = self._per_mech.get(mech, 0) + 1
        if self._per_mech[mech] <= 3 and len(self.violations) < 300:
            self.violations.append({'mech': mech, 'detail': jsonable(detail),
                                    'replay': jsonable(replay) if replay is not None else None})

    def inconclusive_(self, reason):
        self.inconclusive.append(reason)

    def dump(self):
        return {'desc': self.desc, 'counters': self.counters, 'sigs': sorted(self.sigs),
                'samples': self.samples, 'violations': self.violations,
                'viol_total': self.viol_total, 'inconclusive': self.inconclusive}


def repo_frames(tb):
    """Frames of a traceback that lie inside the repository under test."""
    out = []
    for fs in traceback.extract_tb(tb):
        fn = os.path.abspath(fs.filename)
        if fn.startswith(REPO + os.sep):
            out.append((os.path.relpath(fn, REPO), fs.name, fs.lineno))
    return out


def exc_mech(exc):
    """Mechanism key for an exception escaping library code: type + innermost repo function."""
    fr = repo_frames(exc.__traceback__)
    if not fr:
        return None
    f = fr[-1]
    return 'exception:%s@%s:%s' % (type(exc).__name__, f[0], f[1])


def load_known():
    p = os.path.join(VERIF, 'known_findings.json')
    if not os.path.exists(p):
        return []
    with open(p) as f:
        return json.load(f).get('findings', [])


def classify(prop, mech, known):
    """Return the open known finding that this witness mechanism matches, if any."""
    for k in known:
        if k.get('property') == prop and k.get('status') == 'open' and k.get('mech') == mech:
            return k
    return None
