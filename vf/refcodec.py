"""Independent reference encoders/decoders for wire and memory-image layouts (written from the
firmware's struct definitions, never by calling the library)."""
import struct
import zlib


# ------------------------------------------------------------------ 1-wire deck memory
def ow_image(vid, pid, pins, elements, size=112, fill=0xFF):
    """elements: list of (element id, bytes) in the order they are stored."""
    head = struct.pack('<BIBB', 0xEB, pins & 0xFFFFFFFF, vid, pid)
    head += bytes([zlib.crc32(head) & 0xFF])
    body = b''.join(bytes([eid, len(v)]) + v for eid, v in elements)
    el = bytes([0x00, len(body)]) + body
    el += bytes([zlib.crc32(el) & 0xFF])
    img = head + el
    return img + bytes([fill]) * max(0, size - len(img))


def ow_valid(img):
    """(header_ok, elements_ok, parsed) under the firmware rules."""
    if len(img) < 8:
        return False, False, None
    start, pins, vid, pid, crc = struct.unpack('<BIBBB', img[:8])
    header_ok = start == 0xEB and crc == (zlib.crc32(img[:7]) & 0xFF)
    if not header_ok or len(img) < 11:
        return header_ok, False, None
    elen = img[9]
    el = img[8:8 + elen + 3]
    if len(el) < elen + 3:
        return header_ok, False, None
    ok = el[-1] == (zlib.crc32(el[:-1]) & 0xFF)
    parsed = None
    if ok:
        parsed = []
        b = el[2:-1]
        while b:
            if len(b) < 2 or 2 + b[1] > len(b):
                parsed = None          # ragged TLV area (CRC matched by coincidence)
                break
            eid, ln = b[0], b[1]
            parsed.append((eid, bytes(b[2:2 + ln])))
            b = b[2 + ln:]
    return header_ok, ok, {'vid': vid, 'pid': pid, 'pins': pins, 'elements': parsed}


# ------------------------------------------------------------------ I2C EEPROM configuration block
def i2c_image(version, channel, speed, pitch_trim, roll_trim, address=None):
    body = struct.pack('<BBBff', version, channel, speed, pitch_trim, roll_trim)
    if version == 1:
        body += struct.pack('<BI', (address >> 32) & 0xFF, address & 0xFFFFFFFF)
    img = b'0xBC' + body
    return img + bytes([sum(img) % 256])


def i2c_valid(img):
    """Validity of an EEPROM image under the version-dependent layout."""
    if len(img) < 16 or img[:4] != b'0xBC':
        return False
    ver = img[4]
    if ver == 0:
        n = 16
    elif ver == 1:
        n = 21
    else:
        return None        # unknown version: the library never completes the update
    if len(img) < n:
        return False
    return sum(img[:n - 1]) % 256 == img[n - 1]
