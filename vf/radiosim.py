"""Simulated Crazyflie radio peer (nRF51 ESB safelink rules), a scripted radio object for
_RadioDriverThread, and a fake Crazyradio USB device for the full RadioDriver stack.
Written from the ESB / safelink protocol description, independently of the library."""
import collections

from vf import detsched as ds


class Peer:
    """Crazyflie side of the radio link."""

    def __init__(self, supports_safelink=True, echo_garbage=False, bare_idle=False):
        self.supports_safelink = supports_safelink
        self.echo_garbage = echo_garbage
        self.bare_idle = bare_idle      # with nothing to send the acknowledgement carries no payload at all (no filler packet)
        self.bare_acks = 0
        self.safelink = False
        self.up = 0
        self.down = 0
        self.txq = collections.deque()
        self.last_ack = b''
        self.accepted = []        # uplink frames accepted by the Crazyflie (bytes)
        self.dequeued = []        # downlink packets handed to the radio (bytes, before stamping)
        self.negotiations = 0

    def queue(self, pk):
        self.txq.append(bytes(pk))

    def on_frame(self, frame):
        """Frame received over the air; returns the ack payload."""
        frame = bytes(frame)
        if len(frame) == 3 and (frame[0] & 0xF3) == 0xF3 and frame[1] == 0x05:
            self.negotiations += 1
            if self.supports_safelink:
                self.safelink = bool(frame[2])
                self.up = 1
                self.down = 1
                self.last_ack = frame
                return frame
            if self.echo_garbage:
                self.last_ack = bytes([0xFF, 0x05, 0x00])
                return self.last_ack
            # an old firmware treats it as an ordinary (null-port) packet
        if not self.safelink or (frame[0] & 0x08) != (self.up << 3):
            self.accepted.append(frame)
            if self.safelink:
                self.up ^= 1
        if self.safelink and self.bare_idle and not self.txq and (frame[0] & 0x04) != (self.down << 2):
            # nothing new for the host: bare acknowledgement, the downlink counter stays where it is
            self.bare_acks += 1
            self.last_ack = b''
            return self.last_ack
        if not self.safelink or (frame[0] & 0x04) != (self.down << 2):
            if self.safelink:
                self.down ^= 1
            if self.txq:
                pk = bytearray(self.txq.popleft())
                self.dequeued.append(bytes(pk))
            else:
                pk = bytearray([0xF3]) if self.safelink else bytearray()
            if self.safelink and pk:
                pk[0] = (pk[0] & 0xF3) | (self.down << 2) | (self.up << 3)
            self.last_ack = bytes(pk)
        return self.last_ack


class Ack:
    def __init__(self, ack, data=b'', retry=0):
        self.ack = ack
        self.powerDet = False
        self.retry = retry
        self.data = tuple(data)


class ScriptedRadio:
    """The object handed to _RadioDriverThread (interface of _SharedRadioInstance).  Every
    transmission consumes one outcome from the script: 'ok', 'up' (uplink lost), 'ack' (ack lost)."""

    def __init__(self, peer, outcomes, default='ok', cost=0.001):
        self.peer = peer
        self.outcomes = list(outcomes)
        self.default = default
        self.cost = cost
        self.log = []        # (t, frame bytes, outcome, ack bytes or None)
        self.n = 0
        self.version = 0.53
        self.on_tx = None

    def send_packet(self, data):
        frame = bytes(bytearray(data))
        self.n += 1
        out = self.outcomes.pop(0) if self.outcomes else self.default
        s = ds.CUR
        if s is not None:
            s.sleep(self.cost)
        t = s.now if s is not None else 0.0
        if out == 'up':
            self.log.append((t, frame, out, None))
            res = Ack(False)
        else:
            ack = self.peer.on_frame(frame)
            if out == 'ack':
                self.log.append((t, frame, out, None))
                res = Ack(False)
            else:
                self.log.append((t, frame, out, bytes(ack)))
                res = Ack(True, ack)
        if self.on_tx is not None:
            self.on_tx(self.n)
        return res

    def set_arc(self, arc):
        pass

    def set_channel(self, c):
        pass

    def set_address(self, a):
        pass

    def set_data_rate(self, d):
        pass

    def close(self):
        pass


class FakeUsbRadio:
    """pyusb-device look-alike of a Crazyradio dongle; peers are keyed by (channel, datarate, address)."""

    def __init__(self, serial='0123456789', outcomes=None):
        self.serial_number = serial
        self.bcdDevice = 0x0053
        self.channel = None
        self.datarate = None
        self.address = None
        self.arc = None
        self.peers = {}
        self.ctrl = []
        self.outcomes = list(outcomes or [])
        self.log = []
        self._resp = None
        self._ctx = self
        self._n = 0
        self.stalls = {}       # transmission number -> (seconds the USB write takes, seconds the USB read takes); each < its 1 s timeout
        self.stalled = 0
        self._tx_no = 0

    def _status(self, acked):
        """Status byte of the dongle: bit 0 ack received, bit 1 power detector, bits 4..7 number of retries (the
        firmware reports the retries it made: a lost packet carries the configured ARC there, not zero)."""
        self._n += 1
        k = (self._n * 2654435761) >> 7
        retries = (self.arc if (self.arc is not None and not acked) else (k % 4)) & 0x0F
        if k % 5 == 0:
            retries = 0
        powerdet = 1 if k % 3 == 0 else 0
        return (1 if acked else 0) | (powerdet << 1) | (retries << 4)

    # pyusb surface
    def dispose(self, dev):
        pass

    def set_configuration(self, n=1):
        pass

    def reset(self):
        pass

    def ctrl_transfer(self, bmRequestType, bRequest, wValue=0, wIndex=0, timeout=None, data_or_wLength=None):
        self.ctrl.append((bRequest, wValue, tuple(data_or_wLength) if isinstance(data_or_wLength, (tuple, list, bytes, bytearray)) else data_or_wLength))
        if bRequest == 0x01:
            self.channel = wValue
        elif bRequest == 0x02:
            self.address = tuple(data_or_wLength)
        elif bRequest == 0x03:
            self.datarate = wValue
        elif bRequest == 0x06:
            self.arc = wValue
        return 0

    def write(self, endpoint, data, timeout=None):
        frame = bytes(bytearray(data))
        s = ds.CUR
        self._tx_no += 1
        st = self.stalls.get(self._tx_no)
        if s is not None and s.managed():
            s.sleep(0.001 + (st[0] if st else 0.0))
        if st:
            self.stalled += 1
        out = self.outcomes.pop(0) if self.outcomes else 'ok'
        key = (self.channel, self.datarate, self.address)
        peer = self.peers.get(key)
        if peer is None or out == 'up':
            self._resp = bytes([self._status(False)])
            self.log.append((key, frame, 'no-peer' if peer is None else out, None))
            return len(frame)
        ack = peer.on_frame(frame)
        if out == 'ack':
            self._resp = bytes([self._status(False)])
            self.log.append((key, frame, out, None))
        else:
            self._resp = bytes([self._status(True)]) + bytes(ack)
            self.log.append((key, frame, out, bytes(ack)))
        return len(frame)

    def read(self, endpoint, size, timeout=None):
        st = self.stalls.get(self._tx_no)
        s = ds.CUR
        if st and s is not None and s.managed():
            s.sleep(st[1])
        r, self._resp = self._resp, None
        import array
        return array.array('B', r if r is not None else b'\x00')
