"""Oracles shared by several checks (table equality, lookup consistency)."""
from vf import simcf


def snapshot_toc(toc):
    """Deep-copy the observable content of a Toc (dict group -> name -> element attributes)."""
    out = {}
    if toc is None or getattr(toc, 'toc', None) is None:
        return None
    for g, d in toc.toc.items():
        for n, e in d.items():
            out[(g, n)] = {
                'ident': getattr(e, 'ident', None), 'group': getattr(e, 'group', None),
                'name': getattr(e, 'name', None), 'ctype': getattr(e, 'ctype', None),
                'pytype': getattr(e, 'pytype', None), 'access': getattr(e, 'access', None),
                'extended': getattr(e, 'extended', None), 'persistent': getattr(e, 'persistent', None),
                'cls': type(e).__name__,
            }
    return out


def expected_log(dev):
    exp = {}
    for i, (g, n, t) in enumerate(dev.log_toc):
        exp[(g, n)] = {'ident': i, 'group': g, 'name': n, 'ctype': simcf.LOG_TYPES[t][0],
                       'pytype': simcf.LOG_TYPES[t][1], 'access': t & 0x10, 'cls': 'LogTocElement'}
    return exp


def expected_param(dev, with_persistent=True):
    exp = {}
    for i, p in enumerate(dev.params):
        e = {'ident': i, 'group': p['g'], 'name': p['n'], 'ctype': simcf.PARAM_TYPES[p['t']][0],
             'pytype': simcf.PARAM_TYPES[p['t']][1], 'access': 1 if p.get('ro') else 0,
             'extended': bool(p.get('ext')), 'cls': 'ParamTocElement'}
        if with_persistent:
            e['persistent'] = bool(p.get('ext') and p.get('pers'))
        exp[(p['g'], p['n'])] = e
    return exp


def diff_table(kind, got, exp):
    """List of (mech-suffix, detail) differences between a snapshot and the expectation."""
    out = []
    if got is None:
        return [('%s:table-missing' % kind, {})]
    gk, ek = set(got), set(exp)
    if gk != ek:
        out.append(('%s:entry-set-differs' % kind, {'missing': sorted(ek - gk)[:5], 'extra': sorted(gk - ek)[:5],
                                                     'n_got': len(gk), 'n_exp': len(ek)}))
    for k in sorted(gk & ek):
        for f, want in exp[k].items():
            if got[k].get(f) != want:
                out.append(('%s:field-%s-differs' % (kind, f), {'entry': k, 'got': got[k].get(f), 'want': want}))
                break
        if len(out) > 6:
            break
    return out


def lookup_consistency(kind, toc, exp, probe_absent=()):
    """get_element_by_complete_name / get_element / get_element_by_id / get_element_id must agree."""
    out = []
    n = 0
    for (g, nm), e in exp.items():
        n += 1
        a = toc.get_element(g, nm)
        b = toc.get_element_by_complete_name('%s.%s' % (g, nm))
        c = toc.get_element_by_id(e['ident'])
        i = toc.get_element_id('%s.%s' % (g, nm))
        if a is None or a is not b or a is not c or i != e['ident']:
            out.append(('%s:lookups-disagree' % kind, {'entry': (g, nm), 'by_group_name': repr(a),
                                                        'by_complete_name': repr(b), 'by_id': repr(c), 'id': i}))
            if len(out) > 3:
                break
    for (g, nm) in probe_absent:
        if (g, nm) in exp:
            continue
        if toc.get_element(g, nm) is not None or toc.get_element_by_complete_name('%s.%s' % (g, nm)) is not None:
            out.append(('%s:absent-entry-found' % kind, {'entry': (g, nm)}))
    ids = {e['ident'] for e in exp.values()}
    for probe in (len(exp), len(exp) + 1, 65535):
        if probe not in ids and toc.get_element_by_id(probe) is not None:
            out.append(('%s:absent-id-found' % kind, {'id': probe}))
    return out, n
