"""C01 - radio link delivers every packet exactly once, in order, despite loss.

The real _RadioDriverThread (and, in layer B, the whole RadioDriver / RadioManager / _SharedRadio /
Crazyradio stack over a fake USB device) runs under detsched against an independent model of the
Crazyflie's ESB safelink peer.  Every transmission consumes one scripted channel outcome.
"""
import itertools
import random

from vf import core, harness

PROPERTY = 'C01'
LEVEL = 'fault_enumeration'
RULE = ('case = outcome word over {delivered+acked, uplink lost, ack lost} (ALL words up to length k: quick k<=5, thorough '
        'k<=7, then random words up to 2000 transmissions with i.i.d. and burst loss), 0..4 uplink and 0..4 downlink packets, '
        'submission positions of every uplink packet relative to the transmission counter, 1..3 submitter threads, retry '
        'limit N in {2,3,5}, peer with / without safelink, first j negotiation exchanges lost for j=0..10; layer B repeats '
        'random cases through RadioDriver.connect over a fake USB dongle. distinct_nontrivial = distinct (outcome word, '
        'submission schedule, observed frame-sequence hash).')
ASSUMPTIONS = ['peer model = nRF51 ESB safelink rules (see vf/radiosim.py)', 'each transmission costs 1 ms of virtual time',
               'null packet = header 0xFF/0xF3 with empty payload; the 3-byte ff 05 01 negotiation frame is not data']
REQUIRED = ['mon.full_stack_cases_on_a_driver_object_that_carried_an_earlier_link', 'mon.scans_with_the_dongle_while_links_are_open', 'mon.cases_with_several_links_over_one_dongle', 'mon.full_stack_cases_with_a_dongle_transaction_of_more_than_a_second', 'mon.slow_link_cases_without_error_callback', 'mon.packets_refused_after_waiting_for_the_queue', 'mon.downlink_link_service_packets_with_data', 'mon.acknowledgements_without_payload', 'mon.words_exhaustive', 'mon.random_words', 'mon.uplink_packets', 'mon.downlink_packets', 'mon.downlink_header_only_packets', 'mon.uplink_header_only_packets', 'mon.link_errors_expected',
            'mon.negotiation_loss_cases', 'mon.no_safelink_cases', 'mon.full_stack_cases', 'mon.multi_submitter_cases',
            'mon.second_start_up_of_the_same_driver_object']
EXHAUSTIVE = {'quick': False, 'thorough': False}
EXHAUSTIVE_NOTE = 'outcome words up to the stated length are enumerated completely; submission schedules are sampled per word'
DESC_TIMEOUT = 1500
SYM = ('ok', 'up', 'ack')


def cases(tier, seed):
    out = []
    kmax = 5 if tier == 'quick' else 7
    for k in range(0, kmax + 1):
        words = list(itertools.product(range(3), repeat=k))
        chunk = 81
        for i in range(0, len(words), chunk):
            out.append({'part': 'words', 'k': k, 'lo': i, 'hi': min(len(words), i + chunk), 'seed': seed * 7 + k})
    n = 100 if tier == 'quick' else 600
    for i in range(n):
        out.append({'part': 'random', 'seed': seed * 100003 + i})
    for j in range(0, 12):
        out.append({'part': 'negotiation', 'lost': j, 'seed': seed})
    for i in range(16 if tier == 'quick' else 80):
        out.append({'part': 'stack', 'seed': seed * 100003 + i})
    for i in range(12 if tier == 'quick' else 80):
        out.append({'part': 'shared', 'seed': seed * 100019 + i})
    for i in range(4 if tier == 'quick' else 24):
        out.append({'part': 'slow', 'seed': seed * 1013 + i})
    return out


def mkpk(uid, rnd, header_only_ok=False, link_service_ok=False):
    """(header, payload) of a data packet; port/channel never 15/3 with empty payload.  Downlink packets may consist of
    the header alone (a CRTP packet without payload is one byte on the air, like a null packet, but is data)."""
    port = rnd.choice((0, 2, 3, 4, 5, 6, 7, 8, 13, 15))
    chan = rnd.randrange(4)
    if port == 15 and chan == 3:
        chan = 0
    if link_service_ok and rnd.random() < 0.1:
        # a packet of the link service itself (port 15 channel 3) that carries data: the signal-strength report (0x01,
        # rssi), also in its shortest and longer forms; to the driver it is a packet like any other
        return (0xFF, bytes([1]) + bytes(rnd.getrandbits(8) for _ in range(rnd.choice((0, 0, 1, 1, 2)))))
    if header_only_ok and rnd.random() < 0.15:
        return (port << 4 | 0x0C | chan, b'')
    n = rnd.randint(0, 28)
    return (port << 4 | 0x0C | chan, bytes([uid & 0xFF, (uid >> 8) & 0xFF]) + bytes(rnd.getrandbits(8) for _ in range(n)))


def one(ctx, word, n_up, n_down, sub_pos, down_pos, N, safelink=True, nsub=1, sseed=0, policy='random', label='w',
        garbage=False, settle=40, prior=False, cost=0.001, no_cb=False):
    """Run the radio thread over one outcome word.  sub_pos[i] / down_pos[i]: transmission count at which uplink
    packet i is submitted / downlink packet i is queued in the Crazyflie."""
    from vf import detsched as ds, radiosim
    import cflib.crtp.radiodriver as rd
    from cflib.crtp.crtpstack import CRTPPacket
    rnd = random.Random(sseed)
    # (header-only uplink packets only with one submitter: they carry no id to attribute them to a submitter)
    ups = [mkpk(1000 + i, rnd, header_only_ok=(nsub == 1)) for i in range(n_up)]
    downs = [mkpk(2000 + i, rnd, header_only_ok=True, link_service_ok=True) for i in range(n_down)]
    peer = radiosim.Peer(supports_safelink=safelink, echo_garbage=garbage, bare_idle=((sseed // 2) % 3 == 0))
    radio = radiosim.ScriptedRadio(peer, [SYM[x] if isinstance(x, int) else x for x in word], cost=cost)
    ob = {'errors': [], 'accepted_by_send': [], 'received': [], 'needs_resending': None, 'refused': []}
    old_N = rd._nr_of_retries

    def fn(s):
        rd.set_retries_before_disconnect(N)
        drv = rd.RadioDriver()
        drv.in_queue = rd.queue.Queue()
        drv.out_queue = rd.queue.Queue(1)
        drv.link_error_callback = None if no_cb else (lambda msg: ob['errors'].append((radio.n, 'send:' + msg[:30])))
        if prior:
            # an earlier start-up of the SAME driver object (pause()/restart(), close()/connect()) in which the peer
            # confirmed safelink; the judged start-up below is a new negotiation and must stand on its own
            peer0 = radiosim.Peer(supports_safelink=True)
            radio0 = radiosim.ScriptedRadio(peer0, [])
            th0 = rd._RadioDriverThread(radio0, drv.in_queue, drv.out_queue, None, lambda msg: None, drv, None)
            th0.start()
            g0 = 0
            while radio0.n < 12 and g0 < 100000:
                s.sleep(0.001)
                g0 += 1
            th0.stop()
            ob['prior_safelink'] = th0._has_safelink
            while drv.receive_packet(0) is not None:
                pass
        th = rd._RadioDriverThread(radio, drv.in_queue, drv.out_queue, None,
                                   lambda msg: ob['errors'].append((radio.n, msg[:40])), drv, None)
        # downlink packets appear in the Crazyflie's queue at scripted transmission counts

        def on_tx(n):
            for i, p in enumerate(down_pos):
                if p == n:
                    peer.queue(bytes([downs[i][0]]) + downs[i][1])
        radio.on_tx = on_tx
        for i, p in enumerate(down_pos):
            if p <= 0:
                peer.queue(bytes([downs[i][0]]) + downs[i][1])
        th.start()
        import threading

        def submitter(idx):
            for i in idx:
                g = 0
                while radio.n < sub_pos[i] and g < 100000:
                    s.sleep(0.0005)
                    g += 1
                pk = CRTPPacket(ups[i][0], list(ups[i][1]))
                okk = drv.send_packet(pk)
                (ob['accepted_by_send'] if okk else ob['refused']).append(i)
        parts = [list(range(n_up))[j::nsub] for j in range(nsub)]
        subs = [threading.Thread(target=submitter, args=(p,)) for p in parts if p]
        for t in subs:
            t.start()
        for t in subs:
            t.join()
        # let the script run out, then give the link time to drain (losses have stopped)
        g = 0
        while radio.n < len(word) + 12 and g < 200000:
            s.sleep(0.001)
            g += 1
        target = radio.n + settle + 3 * (n_up + n_down)
        while radio.n < target and g < 400000:
            s.sleep(0.001)
            g += 1
        ob['needs_resending'] = drv.needs_resending
        ob['has_safelink'] = th._has_safelink
        while True:
            p = drv.receive_packet(0)
            if p is None:
                break
            ob['received'].append((p.header, bytes(p.data)))
        th.stop()
        ob['alive'] = th.is_alive()
    _, abort, sch = harness.sched_case(fn, seed=sseed, policy=policy, line_p=harness.line_p_for(sseed, 8, 0.1), horizon=4000.0, max_steps=5_000_000)
    ctx.count('mon.statement_level_preemption_points', sch.line_points)
    import cflib.crtp.radiodriver as rd2
    rd2.set_retries_before_disconnect(old_N)
    ctx.evals()
    info = {'word': ''.join('oua'[x] if isinstance(x, int) else x[0] for x in word)[:80], 'n_up': n_up, 'n_down': n_down,
            'submit_at': sub_pos, 'queue_at': down_pos, 'N': N, 'safelink_peer': safelink, 'submitters': nsub, 'case': label}
    rp = {'part': 'single', 'word': [x if isinstance(x, int) else SYM.index(x) for x in word], 'n_up': n_up, 'n_down': n_down,
          'sub_pos': sub_pos, 'down_pos': down_pos, 'N': N, 'safelink': safelink, 'nsub': nsub, 'sseed': sseed, 'policy': policy,
          'garbage': garbage, 'seed': 0, 'prior': prior}
    if prior:
        ctx.count('mon.second_start_up_of_the_same_driver_object')
        if not ob.get('prior_safelink'):
            ctx.inconclusive_('harness: the earlier start-up did not negotiate safelink')

    def V(mech, detail):
        ctx.violate(mech, dict(info, **detail), replay=rp)
    if abort is not None:
        V('radio:hang:%s' % type(abort).__name__, {'abort': str(abort), 'threads': abort.table})
        return None
    for (name, exc, tb) in sch.deaths:
        V('radio:thread-died:%s:%s' % (name.split('#')[0], exc.split('(')[0]), {'traceback': tb})
    log = radio.log
    # ---- negotiation / safelink use
    NEG = bytes((0xFF, 0x05, 0x01))
    m = 0
    confirmed = False
    while m < len(log) and m < 10 and log[m][1] == NEG:
        m += 1
        if log[m - 1][3] == NEG:
            confirmed = True
            break
    nego = log[:m]
    main = log[m:]
    if any(e[1] == NEG for e in main):
        V('radio:negotiation-frame-sent-after-start-up', {'n': sum(1 for e in main if e[1] == NEG)})
    if bool(ob['has_safelink']) != bool(confirmed):
        V('radio:safelink-used-without-confirmation' if ob['has_safelink'] else 'radio:safelink-confirmed-but-not-used',
          {'negotiation_frames': len(nego), 'echoes': sum(1 for e in nego if e[3] == e[1]), 'm': m})
    if ob['needs_resending'] != (not confirmed):
        V('radio:needs_resending-inconsistent-with-safelink', {'needs_resending': ob['needs_resending'], 'confirmed': confirmed})
    if not confirmed:
        raw = [e for e in main if (e[1][0] & 0x0C) != 0x0C]
        if raw:
            V('radio:sequence-bits-sent-without-safelink', {'frames': [e[1].hex() for e in raw[:3]]})
    # ---- link error rule over the main loop
    exp_err = []
    c = 0
    for idx, e in enumerate(main):
        if e[3] is None:
            c += 1
            if c == N:
                exp_err.append(m + idx + 1)
        else:
            c = 0
    got_err = [n for (n, msg) in ob['errors'] if msg.startswith('Too many')]
    ctx.count('mon.link_errors_expected', len(exp_err))
    ctx.count('mon.acknowledgements_without_payload', peer.bare_acks)
    if got_err != exp_err:
        V('radio:link-error-not-reported-exactly-at-the-Nth-consecutive-loss', {'expected_at_tx': exp_err[:6], 'reported_at_tx': got_err[:6]})
    other = [msg for (n, msg) in ob['errors'] if not msg.startswith('Too many')]
    if other:
        V('radio:unexpected-link-error', {'errors': other[:3]})
    if confirmed:
        # ---- uplink exactly once, in order
        acc = [f for f in peer.accepted if not (len(f) == 1 and (f[0] & 0xF3) == 0xF3) and f != bytes((0xFF, 0x05, 0x01))]
        got_up = [((f[0] | 0x0C), f[1:]) for f in acc]
        want_up = [ups[i] for i in ob['accepted_by_send']]
        ctx.count('mon.uplink_packets', len(want_up))
        ctx.count('mon.uplink_header_only_packets', sum(1 for q in want_up if not q[1]))
        if nsub == 1:
            okup = got_up == want_up
        else:
            # per-submitter order and multiset
            okup = sorted(got_up) == sorted(want_up)
            if okup:
                for j in range(nsub):
                    mine = [ups[i] for i in ob['accepted_by_send'] if i % nsub == j]
                    seq = [g for g in got_up if g in mine]
                    if seq != mine:
                        okup = False
        if not okup:
            dup = len(got_up) != len(set(got_up))
            V('radio:uplink-%s' % ('packet-duplicated' if dup else ('packet-lost' if len(got_up) < len(want_up) else 'order-or-content-differs')),
              {'accepted_by_send': len(want_up), 'accepted_by_crazyflie': len(got_up),
               'frames': [e[1][:4].hex() + ':' + e[2] for e in main[:24]]})
        # ---- downlink exactly once, in order
        rec = [(h, d) for (h, d) in ob['received'] if not ((h & 0xF3) == 0xF3 and len(d) == 0)]
        rec = [((h | 0x0C), d) for (h, d) in rec]
        deq = [((p[0] | 0x0C), p[1:]) for p in peer.dequeued]
        ctx.count('mon.downlink_packets', len(deq))
        ctx.count('mon.downlink_header_only_packets', sum(1 for q in deq if not q[1]))
        ctx.count('mon.downlink_link_service_packets_with_data', sum(1 for q in deq if (q[0] & 0xF3) == 0xF3 and q[1]))
        if rec != deq and rec != deq[:-1]:
            dup = len(rec) != len(set(rec))
            V('radio:downlink-%s' % ('packet-duplicated' if dup else ('packet-lost' if len(rec) < len(deq) else 'order-or-content-differs')),
              {'dequeued_by_crazyflie': len(deq), 'returned_by_receive': len(rec), 'frames': [e[1][:4].hex() + ':' + e[2] for e in main[:24]]})
        # bounded progress: everything submitted and queued got through once losses stopped
        if len(got_up) < len(want_up) or len(deq) < len(downs) or (rec != deq):
            if not any(m for m in ctx.violations[-3:] if m['mech'].startswith('radio:')):
                V('radio:not-drained-after-losses-stopped', {'uplink': (len(got_up), len(want_up)), 'downlink': (len(rec), len(downs))})
    else:
        ctx.count('mon.no_safelink_cases')
    if ob['refused'] and not no_cb:
        V('radio:send_packet-refused-a-packet-on-a-working-link', {'refused': ob['refused']})
    if no_cb:
        # (slow link, no error callback installed: a packet that waited two seconds for the queue is refused - then
        # the send call says so, and what it did accept is judged above)
        ctx.count('mon.packets_refused_after_waiting_for_the_queue', len(ob['refused']))
    return (info['word'], core.h64([e[1].hex() for e in log]))


def run(desc, ctx):
    harness.init()
    part = desc['part']
    if part == 'single':
        one(ctx, desc['word'], desc['n_up'], desc['n_down'], desc['sub_pos'], desc['down_pos'], desc['N'], desc['safelink'],
            desc['nsub'], desc['sseed'], desc['policy'], 'replay', desc.get('garbage', False), prior=desc.get('prior', False))
        return
    rnd = random.Random(desc['seed'] * 31 + hash(part) % 1000)
    first = None
    if part == 'words':
        words = list(itertools.product(range(3), repeat=desc['k']))[desc['lo']:desc['hi']]
        for w in words:
            for variant in range(2):
                n_up = rnd.randint(0, 4)
                n_down = rnd.randint(0, 4)
                span = len(w) + 3
                sub_pos = sorted(rnd.randint(0, span) for _ in range(n_up))
                down_pos = sorted(rnd.randint(0, span) for _ in range(n_down))
                N = rnd.choice((2, 3, 5))
                r = one(ctx, list(w), n_up, n_down, sub_pos, down_pos, N, True, 1, desc['seed'] * 977 + variant,
                        rnd.choice(('random', 'rtb', 'pct')), 'exhaustive-word')
                ctx.count('mon.words_exhaustive')
                if r:
                    ctx.nontrivial((r[0], tuple(sub_pos), tuple(down_pos), r[1]))
                    first = first or {'word': r[0], 'uplink_submitted_at_tx': sub_pos, 'downlink_queued_at_tx': down_pos, 'N': N}
    elif part == 'random':
        for it in range(6):
            L = rnd.choice((20, 100, 400, 2000))
            mode = rnd.choice(('iid', 'burst'))
            p = rnd.choice((0.0, 0.1, 0.3, 0.6))
            w = []
            state = 0
            for _ in range(L):
                if mode == 'burst':
                    if rnd.random() < 0.05:
                        state = 1 - state
                    lose = state == 1 and rnd.random() < 0.9
                else:
                    lose = rnd.random() < p
                w.append(rnd.choice((1, 2)) if lose else 0)
            n_up, n_down = rnd.randint(0, 40), rnd.randint(0, 40)
            sub_pos = sorted(rnd.randint(0, L) for _ in range(n_up))
            down_pos = sorted(rnd.randint(0, L) for _ in range(n_down))
            nsub = rnd.choice((1, 1, 2, 3))
            if nsub > 1:
                ctx.count('mon.multi_submitter_cases')
            r = one(ctx, w, n_up, n_down, sub_pos, down_pos, rnd.choice((3, 5, 100)), True, nsub, desc['seed'] * 13 + it,
                    rnd.choice(('random', 'pct')), 'random-word', settle=200)
            ctx.count('mon.random_words')
            if r:
                ctx.nontrivial((r[0][:40], L, n_up, n_down, r[1]))
        first = {'random_words': 6}
    elif part == 'negotiation':
        j = desc['lost']
        for variant in range(6):
            w = [rnd.choice((1, 2)) for _ in range(min(j, 10))] + ([0] * 3 if j <= 10 else [])
            if j == 11:
                w = [1] * 10
            sl = variant < 4           # variants 4 and 5: peer without safelink (4 answers the request with garbage)
            r = one(ctx, w, 2, 2, [12, 14], [12, 13], 5, safelink=sl, nsub=1, sseed=variant, policy='random', label='negotiation',
                    garbage=(variant == 4))
            ctx.count('mon.negotiation_loss_cases')
            one(ctx, w, 2, 2, [12, 14], [12, 13], 5, safelink=sl, nsub=1, sseed=variant + 100, policy='random',
                label='negotiation-after-an-earlier-start-up', garbage=(variant == 4), prior=True)
            if r:
                ctx.nontrivial(('nego', j, variant, r[1]))
        first = {'negotiation_exchanges_lost': j}
    elif part == 'slow':
        # a link that is slow and lossy for seconds without failing (limit far away), opened without an error callback
        # (the way get_link_driver(uri) opens it): the application submits packets faster than they go out
        for variant in range(2):
            streak = rnd.randint(230, 320)
            w = [0] * rnd.randint(3, 8) + [rnd.choice((1, 2)) for _ in range(streak)]
            at = len(w) - streak
            n_up = rnd.randint(3, 5)
            r = one(ctx, w, n_up, 1, [at + i for i in range(n_up)], [at + 2], 1000, True, 1, desc['seed'] * 7 + variant, 'random',
                    'slow-link-without-error-callback', settle=60, cost=0.01, no_cb=True)
            ctx.count('mon.slow_link_cases_without_error_callback')
            if r:
                ctx.nontrivial(('slow', streak, n_up, r[1]))
        first = {'slow_link_cases': 2}
    elif part == 'stack':
        run_stack(desc, ctx, rnd)
        return
    elif part == 'shared':
        run_shared(desc, ctx, rnd)
        return
    ctx.sample(first)


def run_shared(desc, ctx, rnd):
    """Several links over one dongle (RadioManager / _SharedRadio), opened and closed in an order in which a link is closed
    while a link opened after it stays open and another one is opened afterwards: every link keeps its own exactly-once,
    in-order delivery in both directions."""
    from vf import detsched as ds, radiosim
    import cflib.crtp.radiodriver as rd
    import cflib.drivers.crazyradio as cr
    from cflib.crtp.crtpstack import CRTPPacket
    L = 1500
    word = ['ok' if rnd.random() > 0.2 else rnd.choice(('up', 'ack')) for _ in range(L)]
    dev = radiosim.FakeUsbRadio(outcomes=word)
    names = ['A', 'B', 'C', 'D'][:rnd.choice((3, 3, 4))]
    chans = rnd.sample(range(126), len(names))
    links = {}
    for nm, ch in zip(names, chans):
        rate = rnd.choice((0, 1, 2))
        addr = tuple(rnd.getrandbits(8) for _ in range(5))
        peer = radiosim.Peer()
        dev.peers[(ch, rate, addr)] = peer
        links[nm] = {'peer': peer, 'uri': 'radio://0/%d/%s/%s' % (ch, ('250K', '1M', '2M')[rate], ''.join('%02X' % b for b in addr)),
                     'ups': [], 'downs': [], 'rec': [], 'err': [], 'sent_ok': 0, 'drv': None, 'uid': 1000 * (1 + names.index(nm))}
    # the script: open A, open B, traffic, close the link opened first, open C (and D), traffic on everything open
    order = [('open', 'A'), ('open', 'B'), ('traffic',), ('close', 'A'), ('open', 'C')] + ([('open', 'D')] if 'D' in names else []) + \
        [('traffic',), ('close', rnd.choice(('B', 'C'))), ('traffic',)]
    if desc['seed'] % 2 == 0:
        # another part of the application looks for Crazyflies with the same dongle while links are open
        order.insert(rnd.choice((3, 6, len(order))), ('scan',))
        order.append(('traffic',))
    old_find = cr._find_devices
    ob = {}

    def fn(s):
        cr._find_devices = lambda serial=None: [dev]
        rd.RadioManager._radios = []
        rd.RadioManager._lock = ds.Semaphore(1)
        rd.set_retries_before_disconnect(100)

        def poll(dur):
            t_end = s.now + dur
            while s.now < t_end:
                for nm, lk in links.items():
                    if lk['drv'] is not None:
                        p = lk['drv'].receive_packet(0.01)
                        if p is not None:
                            lk['rec'].append((p.header, bytes(p.data)))
        for step in order:
            if step[0] == 'open':
                lk = links[step[1]]
                lk['drv'] = rd.RadioDriver()
                lk['drv'].connect(lk['uri'], None, (lambda m, lk=lk: lk['err'].append(m[:60])))
                poll(0.05)
            elif step[0] == 'scan':
                scanner = rd.RadioDriver()
                ob['scans'] = ob.get('scans', 0) + 1
                ob['found'] = scanner.scan_interface(None)      # (as cflib.crtp.scan_interfaces does: the instance is not closed)
                poll(0.2)
            elif step[0] == 'close':
                lk = links[step[1]]
                poll(1.0)               # everything queued for it has been received
                lk['drv'].close()
                lk['drv'] = None
                s.sleep(0.05)
            else:
                for nm, lk in links.items():
                    if lk['drv'] is None:
                        continue
                    for _ in range(rnd.randint(1, 8)):
                        d = mkpk(lk['uid'] + 500 + len(lk['downs']), rnd, header_only_ok=True, link_service_ok=True)
                        lk['downs'].append(d)
                        lk['peer'].queue(bytes([d[0]]) + d[1])
                    for _ in range(rnd.randint(1, 8)):
                        u = mkpk(lk['uid'] + len(lk['ups']), rnd, header_only_ok=True)
                        lk['ups'].append(u)
                        if lk['drv'].send_packet(CRTPPacket(u[0], list(u[1]))):
                            lk['sent_ok'] += 1
                poll(1.5)
        poll(1.0)
        for lk in links.values():
            if lk['drv'] is not None:
                lk['drv'].close()
    try:
        _, abort, sch = harness.sched_case(fn, seed=desc['seed'], policy='random', horizon=2000.0, max_steps=8_000_000)
    finally:
        cr._find_devices = old_find
    ctx.evals()
    ctx.count('mon.cases_with_several_links_over_one_dongle')
    ctx.count('mon.scans_with_the_dongle_while_links_are_open', ob.get('scans', 0))
    info = {'links': {nm: lk['uri'] for nm, lk in links.items()}, 'script': order}
    rp = dict(desc)
    if abort is not None:
        ctx.violate('radio:shared-dongle:hang:%s' % type(abort).__name__, dict(info, abort=str(abort), threads=abort.table), replay=rp)
        return
    for (name, exc, tb) in sch.deaths:
        ctx.violate('radio:shared-dongle:thread-died:%s' % exc.split('(')[0], dict(info, traceback=tb), replay=rp)
    for nm, lk in links.items():
        peer = lk['peer']
        acc = [((f[0] | 0x0C), f[1:]) for f in peer.accepted if not (len(f) == 1 and (f[0] & 0xF3) == 0xF3) and f != bytes((0xFF, 0x05, 0x01))]
        if acc != lk['ups'][:lk['sent_ok']] or lk['sent_ok'] != len(lk['ups']):
            ctx.violate('radio:shared-dongle:uplink-not-exactly-once-in-order', dict(info, link=nm, accepted=len(acc), sent=lk['sent_ok'], submitted=len(lk['ups'])), replay=rp)
        rec = [((h | 0x0C), d) for (h, d) in lk['rec'] if not ((h & 0xF3) == 0xF3 and len(d) == 0)]
        if rec != lk['downs']:
            ctx.violate('radio:shared-dongle:downlink-not-exactly-once-in-order', dict(info, link=nm, received=len(rec), queued=len(lk['downs'])), replay=rp)
        if lk['err']:
            ctx.violate('radio:shared-dongle:unexpected-link-error', dict(info, link=nm, errors=lk['err'][:2]), replay=rp)
    ctx.nontrivial(('shared', tuple(chans), core.h64(word)))
    ctx.sample(dict(info, transmissions=len(dev.log)))


def run_stack(desc, ctx, rnd):
    """Layer B: RadioDriver.connect over RadioManager / _SharedRadio / Crazyradio and a fake USB dongle."""
    from vf import detsched as ds, radiosim
    import cflib.crtp.radiodriver as rd
    import cflib.drivers.crazyradio as cr
    from cflib.crtp.crtpstack import CRTPPacket
    chan, rate = rnd.randrange(126), rnd.choice((0, 1, 2))
    addr = tuple(rnd.getrandbits(8) for _ in range(5))
    L = 300
    word = ['ok' if rnd.random() > 0.25 else rnd.choice(('up', 'ack')) for _ in range(L)]
    dev = radiosim.FakeUsbRadio(outcomes=word)
    peer = radiosim.Peer()
    dev.peers[(chan, rate, addr)] = peer
    stall = 0.0
    if desc['seed'] % 3 == 0:
        # the USB bus stalls once: one transaction with the dongle takes more than a second (write and read each stay below
        # their own 1000 ms time-out, so the transaction completes and nothing is lost)
        a, b = rnd.uniform(0.5, 0.95), rnd.uniform(0.55, 0.95)
        dev.stalls[rnd.randint(3, 30)] = (a, b)
        stall = a + b
    ups = [mkpk(1000 + i, rnd, header_only_ok=True) for i in range(rnd.randint(1, 25))]
    downs = [mkpk(2000 + i, rnd, header_only_ok=True, link_service_ok=True) for i in range(rnd.randint(1, 25))]
    for d in downs:
        peer.queue(bytes([d[0]]) + d[1])
    ob = {'rec': [], 'err': [], 'sent_ok': 0}
    uri = 'radio://0/%d/%s/%s' % (chan, ('250K', '1M', '2M')[rate], ''.join('%02X' % b for b in addr))
    old_find = cr._find_devices

    def fn(s):
        cr._find_devices = lambda serial=None: [dev]
        rd.RadioManager._radios = []
        rd.RadioManager._lock = ds.Semaphore(1)
        rd.set_retries_before_disconnect(100)
        drv = rd.RadioDriver()
        if desc['seed'] % 4 == 1:
            # the same driver object carried an earlier link; the application closed it without reading the last packets
            key = (chan, rate, addr)
            peer0 = radiosim.Peer()
            dev.peers[key] = peer0
            for i_ in range(4):
                peer0.queue(bytes([0x5C, 0xEE, i_]))
            drv.connect(uri, None, lambda m: ob['err'].append('earlier link: ' + m[:60]))
            s.sleep(0.3)
            drv.close()
            s.sleep(0.1)
            dev.peers[key] = peer
            ob['earlier_link'] = len(peer0.queue_left()) if hasattr(peer0, 'queue_left') else True
        drv.connect(uri, None, lambda m: ob['err'].append(m[:60]))
        for u in ups:
            if drv.send_packet(CRTPPacket(u[0], list(u[1]))):
                ob['sent_ok'] += 1
        t_end = s.now + 3.0 + stall
        while s.now < t_end:
            p = drv.receive_packet(0.05)
            if p is not None:
                ob['rec'].append((p.header, bytes(p.data)))
        ob['needs_resending'] = drv.needs_resending
        drv.close()
    try:
        _, abort, sch = harness.sched_case(fn, seed=desc['seed'], policy='random', horizon=2000.0, max_steps=5_000_000)
    finally:
        cr._find_devices = old_find
    ctx.evals()
    ctx.count('mon.full_stack_cases')
    if ob.get('earlier_link') is not None:
        ctx.count('mon.full_stack_cases_on_a_driver_object_that_carried_an_earlier_link')
    ctx.count('mon.full_stack_cases_with_a_dongle_transaction_of_more_than_a_second', dev.stalled)
    info = {'uri': uri, 'uplink': len(ups), 'downlink': len(downs)}
    if abort is not None:
        ctx.violate('radio:stack:hang:%s' % type(abort).__name__, dict(info, abort=str(abort), threads=abort.table))
        return
    for (name, exc, tb) in sch.deaths:
        ctx.violate('radio:stack:thread-died:%s' % exc.split('(')[0], dict(info, traceback=tb))
    acc = [((f[0] | 0x0C), f[1:]) for f in peer.accepted if not (len(f) == 1 and (f[0] & 0xF3) == 0xF3) and f != bytes((0xFF, 0x05, 0x01))]
    if acc != ups[:ob['sent_ok']] or ob['sent_ok'] != len(ups):
        ctx.violate('radio:stack:uplink-not-exactly-once-in-order', dict(info, accepted=len(acc), sent=ob['sent_ok']))
    rec = [((h | 0x0C), d) for (h, d) in ob['rec'] if not ((h & 0xF3) == 0xF3 and len(d) == 0)]
    if rec != downs:
        ctx.violate('radio:stack:downlink-not-exactly-once-in-order', dict(info, received=len(rec)))
    if ob['err']:
        ctx.violate('radio:stack:unexpected-link-error', dict(info, errors=ob['err'][:2]))
    if ob.get('needs_resending') is not False:
        ctx.violate('radio:stack:needs_resending-not-cleared-with-safelink', info)
    ctx.nontrivial(('stack', uri, core.h64(word)))
    ctx.sample(dict(info, transmissions=len(dev.log), settings_seen_by_dongle=(dev.channel, dev.datarate, dev.address)))
