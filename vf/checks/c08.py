"""C08 - every command packet decodes to the caller's arguments under the firmware layout.

Packets are captured at the link behind the REAL Crazyflie.send_packet (so the 30-byte check is on the
path), one capture window per API call, and decoded with independent reference decoders written from
the firmware's packed structs.
"""
import math
import random
import struct

from vf import core

PROPERTY = 'C08'
LEVEL = 'exploration'
RULE = ('each evaluation = one API call with generated arguments (boundary, special: +-0, +-inf, NaN, subnormal, 1e38/1e39, '
        'and random floats; every bool/enum combination; thrust / masks / ids across and beyond their integer ranges) under '
        'protocol versions {-1,3,4,7,8,9,10} and X-mode on/off; plus all 16x4 headers. distinct_nontrivial = distinct '
        '(command, protocol version, x-mode, captured packet bytes or raised exception type).')
ASSUMPTIONS = ['firmware layouts: crtp_commander_rpyt / crtp_commander_generic (types 0,1,2,5,6,7,8,9,10, meta 0), '
               'crtp_commander_high_level (0,3,4,5,6,7,8,11,12), crtp_localization_service, platformservice',
               'legacy (protocol version <= 8) velocity/zdistance/hover packets carry the yaw rate negated',
               'full-state rates are sent as value*1000 fixed point (unit as passed by the caller)']
REQUIRED = ['mon.headers_of_packets_addressed_again', 'mon.setpoints_built_while_the_version_answer_arrives', 'mon.rpyt', 'mon.generic_setpoints', 'mon.full_state', 'mon.high_level', 'mon.localization', 'mon.platform',
            'mon.lpp', 'mon.refused', 'mon.headers', 'mon.legacy_versions', 'mon.xmode', 'mon.full_state_orientation_judged',
            'mon.full_state_negated_orientation', 'mon.queued_packets_rechecked',
            'mon.unrelated_platform_packets_after_negotiation']

VERSIONS = (-1, 3, 4, 7, 8, 9, 10)
SPECIAL = [0.0, -0.0, float('inf'), float('-inf'), float('nan'), 1e-45, 1e-39, 3.4028234663852886e38, 1e38, 1e39, -1e39,
           1.0, -1.0, 0.5, 1e-3, 123.456]


def cases(tier, seed):
    n = 64 if tier == 'quick' else 300
    return [{'seed': seed * 100003 + i, 'n': 700} for i in range(n)] + [{'seed': 0, 'headers': True}]


def f32(x):
    return struct.unpack('<f', struct.pack('<f', x))[0]


def same32(wire, arg):
    """wire float (python float from '<f') equals float32(arg), NaN/zero-sign aware."""
    try:
        want = f32(arg)
    except (OverflowError, struct.error):
        return False
    if want != want:
        return wire != wire
    return wire == want and (want != 0 or math.copysign(1, wire) == math.copysign(1, want))


class Link:
    needs_resending = False

    def __init__(self):
        self.sent = []
        self.queued = []

    def send_packet(self, pk):
        self.sent.append((pk.header, bytes(pk.data), pk.port, pk.channel))
        # like the radio driver this link only queues the packet OBJECT; the bytes go out later
        self.queued.append((pk, pk.header, bytes(pk.data)))
        del self.queued[:-4]
        return True

    def receive_packet(self, wait=0):
        return None

    def close(self):
        pass


_state = {}


def get_cf():
    if 'cf' not in _state:
        import logging
        import warnings
        logging.disable(logging.CRITICAL)
        warnings.filterwarnings('ignore')
        from cflib.crazyflie import Crazyflie
        cf = Crazyflie()
        cf.link = Link()
        _state['cf'] = cf
    return _state['cf']


def rfloat(rnd):
    r = rnd.random()
    if r < 0.25:
        return rnd.choice(SPECIAL)
    if r < 0.5:
        return rnd.uniform(-1, 1)
    if r < 0.8:
        return rnd.uniform(-100, 100)
    return rnd.uniform(-1e6, 1e6)


def fits32(x):
    try:
        struct.pack('<f', x)
        return True
    except (OverflowError, struct.error):
        return False


def ref_decompress(comp):
    """firmware quatdecompress: returns [x, y, z, w]."""
    mask = (1 << 9) - 1
    i_largest = comp >> 30
    q = [0.0] * 4
    ss = 0.0
    for i in (3, 2, 1, 0):
        if i != i_largest:
            mag = comp & mask
            neg = (comp >> 9) & 1
            comp >>= 10
            q[i] = (1 / math.sqrt(2)) * mag / mask
            if neg:
                q[i] = -q[i]
            ss += q[i] * q[i]
    q[i_largest] = math.sqrt(max(0.0, 1.0 - ss))
    return q


def one(ctx, cf, rnd, version, xmode):
    """Perform one random API call; return (name, args, expectation function or 'raise')."""
    import io
    import contextlib
    link = cf.link
    cf.platform._protocolVersion = version
    if version >= 0 and rnd.random() < 0.5:
        # the version as the firmware announces it, followed by unrelated traffic on the platform port (app-channel
        # data, the echo of a platform command, a firmware-version answer): the negotiated version must survive it
        from cflib.crtp.crtpstack import CRTPPacket as _P
        cf.platform._protocolVersion = -1
        q = _P()
        q.set_header(13, 1)
        q.data = bytes([0, version])
        cf.platform._platform_callback(q)
        for _k in range(rnd.randint(0, 3)):
            q = _P()
            kind = rnd.randrange(4)
            if kind == 0:
                q.set_header(13, 2)
                q.data = bytes([0]) + struct.pack('<ff', rnd.uniform(-5, 5), rnd.uniform(-5, 5))      # app channel data
            elif kind == 1:
                q.set_header(13, 0)
                q.data = bytes([rnd.choice((0, 1, 2)), rnd.choice((0, 1, 17))])                       # echo of a platform command
            elif kind == 2:
                q.set_header(13, 1)
                q.data = bytes([1]) + b'2024.02'                                                     # firmware version string
            else:
                q.set_header(13, 3)
                q.data = bytes([0, rnd.randrange(256)])
            cf.platform._platform_callback(q)
            ctx.count('mon.unrelated_platform_packets_after_negotiation')
        if cf.platform.get_protocol_version() != version:
            ctx.violate('cmd:negotiated-protocol-version-changed-by-unrelated-platform-traffic',
                        {'negotiated': version, 'now': cf.platform.get_protocol_version()})
            cf.platform._protocolVersion = version
    cf.commander.set_client_xmode(xmode)
    cmd = rnd.choice(('rpyt', 'rpyt', 'velw', 'zdist', 'hover', 'pos', 'full', 'stop', 'notify', 'takeoff', 'land',
                      'hlstop', 'goto', 'spiral', 'define', 'start', 'mask', 'extpos', 'extpose', 'estop', 'wdog', 'persist',
                      'arm', 'crash', 'contwave', 'lpp_pos', 'lpp_reboot', 'lpp_mode', 'extpos2'))
    legacy = version <= 8
    link.sent.clear()
    exc = None
    args = None
    expect = None     # function(port, chan, data) -> bool
    must_raise = False
    port = chan = None
    try:
        with contextlib.redirect_stdout(io.StringIO()):
            if cmd == 'rpyt':
                roll, pitch, yaw = rfloat(rnd), rfloat(rnd), rfloat(rnd)
                thrust = rnd.choice((0, 1, 10001, 60000, 65535, 65536, -1, 70000, rnd.randint(0, 65535), rnd.randint(0, 65535), 30000.5))
                args = (roll, pitch, yaw, thrust)
                if xmode:
                    er, ep = 0.707 * (roll - pitch), 0.707 * (roll + pitch)
                else:
                    er, ep = roll, pitch
                must_raise = (not isinstance(thrust, int)) or not (0 <= thrust <= 65535) or not all(fits32(v) for v in (er, -ep, yaw))
                port, chan = 3, 0

                def expect(d, er=er, ep=ep, yaw=yaw, thrust=thrust):
                    if len(d) != 14:
                        return False
                    r, p, y, t = struct.unpack('<fffH', d)
                    return same32(r, er) and same32(p, -ep) and same32(y, yaw) and t == thrust
                ctx.count('mon.rpyt')
                if xmode:
                    ctx.count('mon.xmode')
                cf.commander.send_setpoint(*args)
            elif cmd in ('velw', 'zdist', 'hover'):
                a, b, c, d_ = rfloat(rnd), rfloat(rnd), rfloat(rnd), rfloat(rnd)
                port, chan = 7, 0
                ctx.count('mon.generic_setpoints')
                if legacy:
                    ctx.count('mon.legacy_versions')
                if cmd == 'velw':
                    args = (a, b, c, d_)      # vx, vy, vz, yawrate
                    t = 1 if legacy else 8
                    want = (a, b, c, -d_ if legacy else d_)
                    fn = cf.commander.send_velocity_world_setpoint
                elif cmd == 'zdist':
                    args = (a, b, c, d_)      # roll, pitch, yawrate, z
                    t = 2 if legacy else 9
                    want = (a, b, -c if legacy else c, d_)
                    fn = cf.commander.send_zdistance_setpoint
                else:
                    args = (a, b, c, d_)      # vx, vy, yawrate, z
                    t = 5 if legacy else 10
                    want = (a, b, -c if legacy else c, d_)
                    fn = cf.commander.send_hover_setpoint
                must_raise = not all(fits32(v) for v in want)

                def expect(d, t=t, want=want):
                    if len(d) != 17 or d[0] != t:
                        return False
                    vals = struct.unpack('<ffff', d[1:])
                    return all(same32(w, v) for w, v in zip(vals, want))
                if version >= 0 and rnd.random() < 0.2:
                    # a (re)negotiated version answer arrives on the incoming thread while the setpoint is being built: right
                    # after every read of the version.  The packet must be a legal encoding for the version before or after.
                    from cflib.crtp.crtpstack import CRTPPacket as _P
                    other = rnd.choice([x for x in VERSIONS if x >= 0 and (x <= 8) != legacy])
                    orig = cf.platform.get_protocol_version
                    busy = []

                    def racing_read():
                        v = orig()
                        if not busy:
                            busy.append(1)
                            q = _P()
                            q.set_header(13, 1)
                            q.data = bytes([0, other if v == version else version])
                            cf.platform._platform_callback(q)
                            busy.pop()
                        return v
                    ot, owant = {1: 8, 2: 9, 5: 10, 8: 1, 9: 2, 10: 5}[t], list(want)
                    yi = 3 if cmd == 'velw' else 2
                    owant[yi] = -owant[yi]

                    def expect(d, enc=((t, want), (ot, tuple(owant)))):
                        if len(d) != 17:
                            return False
                        vals = struct.unpack('<ffff', d[1:])
                        return any(d[0] == t_ and all(same32(w, v) for w, v in zip(vals, w_)) for (t_, w_) in enc)
                    ctx.count('mon.setpoints_built_while_the_version_answer_arrives')
                    cf.platform.get_protocol_version = racing_read
                    try:
                        fn(*args)
                    finally:
                        del cf.platform.get_protocol_version
                else:
                    fn(*args)
            elif cmd == 'pos':
                args = tuple(rfloat(rnd) for _ in range(4))
                must_raise = not all(fits32(v) for v in args)
                port, chan = 7, 0

                def expect(d, args=args):
                    return len(d) == 17 and d[0] == 7 and all(same32(w, v) for w, v in zip(struct.unpack('<ffff', d[1:]), args))
                ctx.count('mon.generic_setpoints')
                cf.commander.send_position_setpoint(*args)
            elif cmd == 'full':
                inrange = rnd.random() < 0.75    # most calls must be encodable, else the orientation is never judged

                def v3(lim, inrange=inrange):
                    if inrange:
                        return [rnd.choice((rnd.uniform(-32.7, 32.7), rnd.uniform(-1, 1), 32.767, -32.768, 0.0)) for _ in range(3)]
                    return [rnd.choice((rnd.uniform(-lim, lim), rnd.uniform(-1, 1), 32.767, -32.768, 32.768, -32.769, 0.0, 40.0))
                            for _ in range(3)]
                pos, vel, acc = v3(33), v3(33), v3(33)
                rates = v3(33)
                q = [rnd.gauss(0, 1) for _ in range(4)]
                if all(abs(x) < 1e-9 for x in q):
                    q = [0, 0, 0, 1]
                args = (pos, vel, acc, q, rates[0], rates[1], rates[2])
                allv = pos + vel + acc + rates
                must_raise = any(not (-32768 <= int(v * 1000) <= 32767) for v in allv)
                port, chan = 7, 0

                def expect(d, allv=allv, q=q):
                    if len(d) != 29 or d[0] != 6:
                        return False
                    f = struct.unpack('<hhhhhhhhhIhhh', d[1:])
                    ints = list(f[:9]) + list(f[10:])
                    if any(abs(i - v * 1000) >= 1 + 1e-6 for i, v in zip(ints, allv)):
                        return False
                    dq = ref_decompress(f[9])
                    n = math.sqrt(sum(x * x for x in q))
                    qh = [x / n for x in q]
                    e = min(max(abs(a - b) for a, b in zip(dq, qh)), max(abs(a + b) for a, b in zip(dq, qh)))
                    ctx.count('mon.full_state_orientation_judged')
                    if max(qh, key=abs) < 0 and sum(1 for x in qh if x < 0) >= 2:
                        ctx.count('mon.full_state_negated_orientation')
                    return e <= 2 * (1 / math.sqrt(2)) / 511
                ctx.count('mon.full_state')
                cf.commander.send_full_state_setpoint(*args)
            elif cmd == 'stop':
                args = ()
                port, chan = 7, 0
                expect = (lambda d: d == b'\x00')
                ctx.count('mon.generic_setpoints')
                cf.commander.send_stop_setpoint()
            elif cmd == 'notify':
                ms = rnd.choice((0, 1, 500, 0xFFFFFFFF, 0x100000000, -1, rnd.getrandbits(32)))
                args = (ms,)
                must_raise = not (0 <= ms <= 0xFFFFFFFF)
                port, chan = 7, 1
                expect = (lambda d, ms=ms: len(d) == 5 and d[0] == 0 and struct.unpack('<I', d[1:])[0] == ms)
                ctx.count('mon.generic_setpoints')
                cf.commander.send_notify_setpoint_stop(ms)
            elif cmd in ('takeoff', 'land'):
                h, dur = rfloat(rnd), rfloat(rnd)
                yaw = rnd.choice((None, rfloat(rnd), 0.0))
                gm = rnd.choice((0, 1, 255, 256, -1, rnd.randrange(256)))
                args = (h, dur, gm, yaw)
                must_raise = not (0 <= gm <= 255) or not all(fits32(v) for v in (h, dur, 0.0 if yaw is None else yaw))
                port, chan = 8, 0
                code = 7 if cmd == 'takeoff' else 8

                def expect(d, code=code, h=h, dur=dur, yaw=yaw, gm=gm):
                    if len(d) != 15 or d[0] != code or d[1] != gm:
                        return False
                    hh, yy = struct.unpack('<ff', d[2:10])
                    use = d[10]
                    dd = struct.unpack('<f', d[11:15])[0]
                    if not (same32(hh, h) and same32(dd, dur)):
                        return False
                    if yaw is None:
                        return use == 1
                    return use == 0 and same32(yy, yaw)
                ctx.count('mon.high_level')
                (cf.high_level_commander.takeoff if cmd == 'takeoff' else cf.high_level_commander.land)(h, dur, group_mask=gm, yaw=yaw)
            elif cmd == 'hlstop':
                gm = rnd.choice((0, 255, 256, rnd.randrange(256)))
                args = (gm,)
                must_raise = not (0 <= gm <= 255)
                port, chan = 8, 0
                expect = (lambda d, gm=gm: d == bytes([3, gm]))
                ctx.count('mon.high_level')
                cf.high_level_commander.stop(group_mask=gm)
            elif cmd == 'goto':
                x, y, z, yaw, dur = (rfloat(rnd) for _ in range(5))
                rel, lin = rnd.random() < 0.5, rnd.random() < 0.5
                gm = rnd.randrange(256)
                args = (x, y, z, yaw, dur, rel, lin, gm)
                must_raise = not all(fits32(v) for v in (x, y, z, yaw, dur))
                port, chan = 8, 0
                old = version < 8
                if old:
                    ctx.count('mon.legacy_versions')

                def expect(d, old=old, vals=(x, y, z, yaw, dur), rel=rel, lin=lin, gm=gm):
                    if old:
                        if len(d) != 23 or d[0] != 4 or d[1] != gm or d[2] != int(rel):
                            return False
                        fl = struct.unpack('<fffff', d[3:])
                    else:
                        if len(d) != 24 or d[0] != 12 or d[1] != gm or d[2] != int(rel) or d[3] != int(lin):
                            return False
                        fl = struct.unpack('<fffff', d[4:])
                    return all(same32(w, v) for w, v in zip(fl, vals))
                ctx.count('mon.high_level')
                cf.high_level_commander.go_to(x, y, z, yaw, dur, relative=rel, linear=lin, group_mask=gm)
            elif cmd == 'spiral':
                ang = rnd.choice((rfloat(rnd), 7.0, -7.0, 2 * math.pi, 1.0, -3.0))
                r0, rF = rnd.choice((rfloat(rnd), -1.0, 0.5)), rnd.choice((rfloat(rnd), -0.1, 1.0))
                asc, dur = rfloat(rnd), rfloat(rnd)
                side, cw = rnd.random() < 0.5, rnd.random() < 0.5
                gm = rnd.randrange(256)
                args = (ang, r0, rF, asc, dur, side, cw, gm)
                if ang != ang or r0 != r0 or rF != rF:
                    return None          # NaN through the documented saturation is unspecified
                ea = max(-2 * math.pi, min(2 * math.pi, ang))
                e0, eF = (0 if r0 < 0 else r0), (0 if rF < 0 else rF)
                port, chan = 8, 0
                if version < 8:
                    expect = 'nothing'
                    ctx.count('mon.legacy_versions')
                else:
                    must_raise = not all(fits32(v) for v in (ea, e0, eF, asc, dur))

                    def expect(d, vals=(ea, e0, eF, asc, dur), side=side, cw=cw, gm=gm):
                        if len(d) != 24 or d[0] != 11 or d[1] != gm or d[2] != int(side) or d[3] != int(cw):
                            return False
                        return all(same32(w, v) for w, v in zip(struct.unpack('<fffff', d[4:]), vals))
                ctx.count('mon.high_level')
                cf.high_level_commander.spiral(ang, r0, rF, asc, dur, sideways=side, clockwise=cw, group_mask=gm)
            elif cmd == 'define':
                tid, off, n, ty = rnd.choice((0, 255, 256, rnd.randrange(256))), rnd.choice((0, 0xFFFFFFFF, 2 ** 32, rnd.getrandbits(32), 132)), \
                    rnd.choice((0, 255, 256, rnd.randrange(256))), rnd.choice((0, 1))
                args = (tid, off, n, ty)
                must_raise = not (0 <= tid <= 255 and 0 <= off <= 0xFFFFFFFF and 0 <= n <= 255)
                port, chan = 8, 0
                expect = (lambda d, a=args: len(d) == 9 and d[0] == 6 and d[1] == a[0] and d[2] == 1 and d[3] == a[3] and
                          struct.unpack('<I', d[4:8])[0] == a[1] and d[8] == a[2])
                ctx.count('mon.high_level')
                cf.high_level_commander.define_trajectory(tid, off, n, type=ty)
            elif cmd == 'start':
                tid, ts = rnd.choice((0, 255, 256, rnd.randrange(256))), rfloat(rnd)
                rel, rev = rnd.random() < 0.5, rnd.random() < 0.5
                gm = rnd.randrange(256)
                args = (tid, ts, rel, rev, gm)
                must_raise = not (0 <= tid <= 255) or not fits32(ts)
                port, chan = 8, 0
                expect = (lambda d, a=args: len(d) == 9 and d[0] == 5 and d[1] == a[4] and d[2] == int(a[2]) and d[3] == int(a[3]) and
                          d[4] == a[0] and same32(struct.unpack('<f', d[5:])[0], a[1]))
                ctx.count('mon.high_level')
                cf.high_level_commander.start_trajectory(tid, time_scale=ts, relative=rel, reversed=rev, group_mask=gm)
            elif cmd == 'mask':
                gm = rnd.choice((0, 1, 255, 256, -1, rnd.randrange(256)))
                args = (gm,)
                must_raise = not (0 <= gm <= 255)
                port, chan = 8, 0
                expect = (lambda d, gm=gm: d == bytes([0, gm]))
                ctx.count('mon.high_level')
                cf.high_level_commander.set_group_mask(gm)
            elif cmd in ('extpos', 'extpos2'):
                p = [rfloat(rnd) for _ in range(3)]
                args = tuple(p)
                must_raise = not all(fits32(v) for v in p)
                port, chan = 6, 0
                expect = (lambda d, p=p: len(d) == 12 and all(same32(w, v) for w, v in zip(struct.unpack('<fff', d), p)))
                ctx.count('mon.localization')
                if cmd == 'extpos':
                    cf.extpos.send_extpos(*p)
                else:
                    cf.loc.send_extpos(p)
            elif cmd == 'extpose':
                p = [rfloat(rnd) for _ in range(3)]
                q = [rfloat(rnd) for _ in range(4)]
                args = tuple(p + q)
                must_raise = not all(fits32(v) for v in p + q)
                port, chan = 6, 1
                expect = (lambda d, v=p + q: len(d) == 29 and d[0] == 8 and all(same32(w, x) for w, x in zip(struct.unpack('<fffffff', d[1:]), v)))
                ctx.count('mon.localization')
                cf.extpos.send_extpose(*(p + q))
            elif cmd == 'estop':
                args = ()
                port, chan = 6, 1
                expect = (lambda d: d == b'\x03')
                ctx.count('mon.localization')
                cf.loc.send_emergency_stop()
            elif cmd == 'wdog':
                args = ()
                port, chan = 6, 1
                expect = (lambda d: d == b'\x04')
                ctx.count('mon.localization')
                cf.loc.send_emergency_stop_watchdog()
            elif cmd == 'persist':
                geo = rnd.sample(range(-1, 17), rnd.randint(0, 6))
                cal = rnd.sample(range(-1, 17), rnd.randint(0, 6))
                args = (list(geo), list(cal))
                must_raise = any(not 0 <= b <= 15 for b in geo + cal)
                port, chan = 6, 1
                mg = sum(1 << b for b in geo if 0 <= b <= 15)
                mc = sum(1 << b for b in cal if 0 <= b <= 15)
                expect = (lambda d, mg=mg, mc=mc: len(d) == 5 and d[0] == 11 and struct.unpack('<HH', d[1:]) == (mg, mc))
                ctx.count('mon.localization')
                cf.loc.send_lh_persist_data_packet(list(geo), list(cal))
            elif cmd == 'arm':
                do = rnd.random() < 0.5
                args = (do,)
                port, chan = 13, 0
                expect = (lambda d, do=do: d == bytes([1, int(do)]))
                ctx.count('mon.platform')
                cf.platform.send_arming_request(do)
            elif cmd == 'crash':
                args = ()
                port, chan = 13, 0
                expect = (lambda d: d == b'\x02')
                ctx.count('mon.platform')
                cf.platform.send_crash_recovery_request()
            elif cmd == 'contwave':
                en = rnd.random() < 0.5
                args = (en,)
                port, chan = 13, 0
                expect = (lambda d, en=en: d == bytes([0, int(en)]))
                ctx.count('mon.platform')
                cf.platform.set_continous_wave(en)
            else:
                from lpslib.lopoanchor import LoPoAnchor
                anchor = LoPoAnchor(cf)
                aid = rnd.choice((0, 255, 256, rnd.randrange(256)))
                port, chan = 6, 1
                ctx.count('mon.lpp')
                if cmd == 'lpp_pos':
                    p = [rfloat(rnd) for _ in range(3)]
                    args = (aid, p)
                    must_raise = not (0 <= aid <= 255) or not all(fits32(v) for v in p)
                    expect = (lambda d, aid=aid, p=p: len(d) == 15 and d[0] == 2 and d[1] == aid and d[2] == 1 and
                              all(same32(w, v) for w, v in zip(struct.unpack('<fff', d[3:]), p)))
                    anchor.set_position(aid, p)
                elif cmd == 'lpp_reboot':
                    mode = rnd.choice((0, 1))
                    args = (aid, mode)
                    must_raise = not (0 <= aid <= 255)
                    expect = (lambda d, aid=aid, mode=mode: d == bytes([2, aid, 2, mode]))
                    anchor.reboot(aid, mode)
                else:
                    mode = rnd.choice((1, 2, 3))
                    args = (aid, mode)
                    must_raise = not (0 <= aid <= 255)
                    expect = (lambda d, aid=aid, mode=mode: d == bytes([2, aid, 3, mode]))
                    anchor.set_mode(aid, mode)
    except Exception as e:  # noqa
        exc = e
    return cmd, args, expect, must_raise, exc, port, chan


def run(desc, ctx):
    core.setup_path()
    if desc.get('headers'):
        from cflib.crtp.crtpstack import CRTPPacket
        for port in range(16):
            for chan in range(4):
                ctx.evals()
                ctx.count('mon.headers')
                ctx.nontrivial(('hdr', port, chan))
                want = port << 4 | 3 << 2 | chan
                a = CRTPPacket()
                a.set_header(port, chan)
                b = CRTPPacket()
                b.port = port
                b.channel = chan
                c = CRTPPacket(want)
                d = CRTPPacket(port << 4 | chan)
                ok = a.header == want and a.get_header() == want and b.get_header() == want and b.header == want and \
                    (c.port, c.channel) == (port, chan) and (d.port, d.channel) == (port, chan) and d.header == want and \
                    (a.port, a.channel) == (port, chan)
                if not ok:
                    ctx.violate('header:port-channel-not-lossless', {'port': port, 'chan': chan, 'set_header': a.header,
                                                                    'setters': b.header, 'ctor': (c.port, c.channel)})
        # one packet object addressed again and again (a re-used packet; a received packet turned into the answer): the
        # header byte is always that of the LAST address, nothing of the earlier ones is left in it
        hrnd = random.Random(desc.get('seed', 0))
        for trial in range(300):
            how0 = hrnd.randrange(3)
            pk = CRTPPacket(hrnd.randrange(256), [1]) if how0 == 0 else CRTPPacket()
            for step in range(hrnd.randint(1, 4)):
                port, chan = hrnd.randrange(16), hrnd.randrange(4)
                if hrnd.random() < 0.5:
                    pk.set_header(port, chan)
                else:
                    pk.port = port
                    pk.channel = chan
                ctx.evals()
                ctx.count('mon.headers_of_packets_addressed_again')
                want = port << 4 | 3 << 2 | chan
                if pk.header != want or pk.get_header() != want or (pk.port, pk.channel) != (port, chan):
                    ctx.violate('header:packet-addressed-again-keeps-bits-of-the-earlier-address',
                                {'port': port, 'chan': chan, 'header': pk.header, 'expected': want, 'step': step})
                    break
        # payload limit
        p = CRTPPacket()
        p.data = bytes(31)
        cf = get_cf()
        try:
            cf.send_packet(p)
            ctx.violate('send_packet:31-byte-payload-accepted', {})
        except Exception:
            pass
        ctx.sample({'headers': 'all 16 x 4 through set_header, property setters and constructor'})
        return
    cf = get_cf()
    rnd = random.Random(desc['seed'])
    first = None
    for i in range(desc['n']):
        version = rnd.choice(VERSIONS)
        xmode = rnd.random() < 0.3
        r = one(ctx, cf, rnd, version, xmode)
        if r is None:
            continue
        cmd, args, expect, must_raise, exc, port, chan = r
        sent = list(cf.link.sent)
        ctx.evals()
        rp = {'seed': desc['seed'], 'n': i + 1}
        info = {'command': cmd, 'args': core.jsonable(args), 'protocol_version': version, 'xmode': xmode}
        if must_raise:
            ctx.count('mon.refused')
            ctx.nontrivial((cmd, version, xmode, 'raise', core.h64(core.jsonable(args))))
            if exc is None or sent:
                ctx.violate('cmd:%s:unrepresentable-argument-not-refused' % cmd,
                            dict(info, sent=[(s[2], s[3], s[1].hex()) for s in sent], raised=repr(exc)), replay=rp)
            continue
        if exc is not None:
            ctx.violate('cmd:%s:raised-for-representable-arguments' % cmd, dict(info, error=repr(exc)), replay=rp)
            continue
        if expect == 'nothing':
            if sent:
                ctx.violate('cmd:%s:sent-although-unsupported-by-protocol-version' % cmd, info, replay=rp)
            continue
        if len(sent) != 1:
            ctx.violate('cmd:%s:not-exactly-one-packet' % cmd, dict(info, packets=len(sent)), replay=rp)
            continue
        hdr, data, p_, c_ = sent[0]
        ctx.nontrivial((cmd, version, xmode, data))
        if len(data) > 30 or p_ != port or c_ != chan or hdr != (port << 4 | 0x0C | chan):
            ctx.violate('cmd:%s:wrong-port-channel-or-size' % cmd, dict(info, port=p_, chan=c_, size=len(data), header=hdr), replay=rp)
            continue
        if not expect(data):
            ctx.violate('cmd:%s:packet-does-not-decode-to-arguments' % cmd, dict(info, data=data.hex()), replay=rp)
        # packets handed to the link by earlier commands and still queued there must not have changed
        for (pko, h0, d0) in cf.link.queued[:-1]:
            ctx.count('mon.queued_packets_rechecked')
            if pko.header != h0 or bytes(pko.data) != d0:
                ctx.violate('cmd:%s:packet-queued-by-an-earlier-command-changed' % cmd,
                            dict(info, queued_was=d0.hex(), queued_is=bytes(pko.data).hex()), replay=rp)
                del cf.link.queued[:]
                break
        if first is None:
            first = dict(info, port=p_, channel=c_, data=data.hex())
    ctx.sample(first)
