"""C11 - the table cache never yields a wrong table, even after a crash.

Real connections (detsched + simcf) with real cache directories created under tempfile.  Monitors: the
tables at `connected`, the device's view of the session (were item requests sent, i.e. was the cache
used), TocCache.fetch results for every truncation offset, an audit hook recording every write-type
file-system event with its path, and content hashes of the read-only directory.
"""
import hashlib
import json
import os
import random
import shutil
import sys
import tempfile

from vf import core, gen, harness, oracles

PROPERTY = 'C11'
LEVEL = 'fault_enumeration'
RULE = ('case = device tables of 0..12 entries (all types), CRC values incl. 0, 0xFFFFFFFF and equal CRC for log and '
        'param table, cache-directory configuration in {none, ro, rw, ro+rw, ro with a corrupt/stale file + rw}. Per '
        'case: populate by a real connection, re-connect with a fresh Crazyflie and compare; then cut each written cache '
        'file at EVERY byte offset (fetch must miss) and re-connect on a sample (quick) / all (thorough, small tables) of '
        'those offsets; random garbling that breaks JSON. distinct_nontrivial = distinct (table hash, configuration, '
        'file, offset/garble) evaluated.')
ASSUMPTIONS = ['a crash during the cache write leaves a prefix of the intended file content',
               'cache files that are valid JSON but semantically wrong are outside the statement']
REQUIRED = ['mon.files_with_json_that_is_no_table', 'mon.two_firmwares_connecting_at_once_on_one_cache_directory', 'mon.connects_with_a_parameter_notification_before_the_tables', 'mon.cached_connects', 'mon.cache_hits', 'mon.truncation_offsets', 'mon.truncated_connects',
            'mon.garbled_files', 'mon.crc_collision_cases', 'mon.ro_dir_audited', 'mon.audit_events_seen',
            'mon.files_vanished_before_connect', 'mon.files_with_a_field_missing',
            'mon.crc_collision_with_one_empty_table', 'mon.store_load_round_trips',
            'mon.interrupted_download_then_other_firmware_histories',
            'mon.late_item_answers_of_the_interrupted_session_during_the_final_download']
DESC_TIMEOUT = 1500
EXHAUSTIVE = {'quick': False, 'thorough': False}
EXHAUSTIVE_NOTE = 'truncation offsets are enumerated completely for every written cache file (fetch level); connections on a sample'

_audit = {'on': False, 'events': [], 'installed': False, 'seen': 0}
_WRITE_EVENTS = ('os.remove', 'os.rename', 'os.mkdir', 'os.rmdir', 'os.truncate', 'os.chmod', 'os.utime', 'os.link',
                 'os.symlink', 'shutil.copyfile', 'shutil.move', 'shutil.rmtree', 'os.replace', 'os.unlink')


def _hook(event, args):
    if not _audit['on']:
        return
    try:
        if event == 'open':
            path, mode, flags = args[0], args[1], args[2]
            _audit['seen'] += 1
            w = (isinstance(mode, str) and any(c in mode for c in 'wax+')) or \
                (isinstance(flags, int) and flags & (os.O_WRONLY | os.O_RDWR | os.O_CREAT | os.O_TRUNC | os.O_APPEND))
            if w and isinstance(path, (str, bytes)):
                _audit['events'].append(('open-for-write', os.fsdecode(path)))
        elif event in _WRITE_EVENTS:
            _audit['seen'] += 1
            for a in args[:2]:
                if isinstance(a, (str, bytes)):
                    _audit['events'].append((event, os.fsdecode(a)))
    except Exception:
        pass


def worker_init():
    if not _audit['installed']:
        sys.addaudithook(_hook)
        _audit['installed'] = True


CONFIGS = ['none', 'ro', 'rw', 'ro+rw', 'ro_corrupt+rw', 'ro_stale+rw']


def cases(tier, seed):
    rnd = random.Random(seed * 7477 + 1)
    out = []
    n = 36 if tier == 'quick' else 400
    for i in range(n):
        crc_mode = ('random', 'collide', 'zero', 'ones', 'near', 'collide', 'near')[i % 7]
        out.append({'seed': seed * 1000003 + i, 'nlog': rnd.randint(0, 12), 'nparam': rnd.randint(0, 12),
                    'proto': rnd.choice((10, 10, 3)), 'config': CONFIGS[i % len(CONFIGS)], 'crc': crc_mode,
                    'connect_samples': 6 if tier == 'quick' else 40, 'latin': i % 4 == 0})
    out.append({'seed': seed * 31 + 7, 'part': 'storeload'})
    out += [{'seed': seed * 1013 + 700 + i, 'part': 'shared'} for i in range(24 if tier == 'quick' else 160)]
    out += [{'seed': seed * 1009 + 400 + i, 'part': 'history'} for i in range(16 if tier == 'quick' else 120)]
    # an empty table whose checksum collides with the (non-empty) table of the other kind
    for j, (nl, npar, cfg) in enumerate(((0, 5, 'rw'), (4, 0, 'rw'), (0, 3, 'ro+rw'), (6, 0, 'none'), (0, 0, 'rw'), (0, 1, 'ro'))):
        out.append({'seed': seed * 1000003 + 5000 + j, 'nlog': nl, 'nparam': npar, 'proto': 10 if j % 2 == 0 else 3, 'config': cfg,
                    'crc': 'collide', 'connect_samples': 2, 'latin': False})
    return out


def _dirhash(d):
    h = hashlib.sha1()
    for root, dirs, files in sorted(os.walk(d)):
        for f in sorted(files):
            p = os.path.join(root, f)
            h.update(p.encode())
            with open(p, 'rb') as fh:
                h.update(fh.read())
        for dd in sorted(dirs):
            h.update(('D' + os.path.join(root, dd)).encode())
    return h.hexdigest()


def connect_once(dev_profile, ro, rw, seed, after_construct=None):
    """One real connection with a fresh Crazyflie; returns observation dict."""
    from vf import detsched as ds, simcf, simlink
    from cflib.crazyflie import Crazyflie
    dev = simcf.SimCF(dev_profile)
    spec = simlink.LinkSpec(dev)
    uri = 'sim://c11'
    simlink.SIMS[uri] = spec
    ob = {'connected': 0, 'failed': None, 'log': None, 'param': None, 'escaped': None}

    def fn(s):
        dev.now = lambda: s.now
        cf = Crazyflie(ro_cache=ro, rw_cache=rw)
        if after_construct is not None:
            after_construct()
        done = ds.Event()

        def on_conn(u):
            ob['connected'] += 1
            ob['log'] = oracles.snapshot_toc(cf.log.toc)
            ob['param'] = oracles.snapshot_toc(cf.param.toc)
            done.set()
        cf.connected.add_callback(on_conn)
        cf.connection_failed.add_callback(lambda u, m: (ob.__setitem__('failed', str(m)[:300]), done.set()))
        cf.open_link(uri)
        if cf.link is not None and dev.proto >= 4 and dev.params and seed % 2 == 0:
            # the firmware reports a parameter changed on board: it may do so at any time, also before the tables are there
            h, d = dev.value_updated_packet(seed % len(dev.params))
            cf.link.inject(h, d, (0.0, 0.0005, 0.002)[(seed // 2) % 3])
            ob['early'] = 1
        done.wait(120.0)
        s.sleep(0.3)
        # every entry of the table in use is found by index and by name
        if ob['connected'] and cf.param.toc is not None:
            ob['lookup_issues'] = oracles.lookup_consistency('param', cf.param.toc, oracles.expected_param(dev))[0][:2]
        cf.close_link()
    _audit['on'] = True
    try:
        _, abort, s = harness.sched_case(fn, seed=seed, policy='rtb', horizon=600.0)
    finally:
        _audit['on'] = False
    ob['abort'] = abort
    ob['deaths'] = list(s.deaths)
    ob['log_items_requested'] = sum(1 for e in dev.rx if (e[1] >> 4) == 5 and e[1] & 3 == 0 and e[2][0] in (0, 2))
    ob['param_items_requested'] = sum(1 for e in dev.rx if (e[1] >> 4) == 2 and e[1] & 3 == 0 and e[2][0] in (0, 2))
    ob['dev'] = dev
    return ob


def run_store_load(desc, ctx):
    """Store / load round trip at the cache's own interface for elements of EVERY type code each element class
    knows (including types no simulated firmware announces), every access / extended combination."""
    from cflib.crazyflie.log import LogTocElement
    from cflib.crazyflie.param import ParamTocElement
    from cflib.crazyflie.toc import Toc
    from cflib.crazyflie.toccache import TocCache
    rnd = random.Random(desc['seed'])
    base = tempfile.mkdtemp(prefix='vf_c11s_')
    try:
        for cls, codes in ((LogTocElement, sorted(LogTocElement.types)), (ParamTocElement, sorted(ParamTocElement.types))):
            toc = Toc()
            ident = 0
            for code in codes:
                for flags in ((0x00,), (0x40,), (0x10,), (0x50,)) if cls is ParamTocElement else ((0x00,),):
                    meta = code | flags[0]
                    name = ('g%d' % (ident % 3)).encode() + b'\0' + ('v%d_%s' % (ident, cls.types[code][0])).encode() + b'\0'
                    toc.add_element(cls(ident, bytes([meta]) + name))
                    ident += 1
            crc = rnd.getrandbits(32)
            d = os.path.join(base, cls.__name__)
            TocCache(rw_cache=d).insert(crc, toc.toc)
            back = TocCache(rw_cache=d).fetch(crc)
            ctx.evals()
            ctx.count('mon.store_load_round_trips')
            ctx.nontrivial(('storeload', cls.__name__, crc))
            want = oracles.snapshot_toc(toc)
            t2 = Toc()
            t2.toc = back or {}
            got = oracles.snapshot_toc(t2)
            if got != want:
                diff = [(k, {f: (want[k][f], (got.get(k) or {}).get(f)) for f in want[k] if (got.get(k) or {}).get(f) != want[k][f]})
                        for k in want if got.get(k) != want[k]]
                ctx.violate('cache:store-load:entries-differ', {'class': cls.__name__, 'differences': core.jsonable(diff[:4])},
                            replay=dict(desc))
    finally:
        shutil.rmtree(base, ignore_errors=True)


def run_history(desc, ctx):
    """One Crazyflie object with a read-write cache: a download from firmware X is cut short by close_link(), the same
    object then connects to firmware Y (other checksums); later a fresh object with the same cache connects to X.
    What is stored under a checksum must be what that firmware announced: X's tables, entry for entry."""
    from vf import detsched as ds, simcf, simlink
    from cflib.crazyflie import Crazyflie
    rnd = random.Random(desc['seed'])
    nx = rnd.randint(4, 10)
    profx = gen.profile(desc['seed'], nx, rnd.randint(2, 8), proto=10)
    profy = gen.profile(desc['seed'] + 17, nx + rnd.randint(0, 4), rnd.randint(2, 8) + 8, proto=10)
    devx, devy = simcf.SimCF(profx), simcf.SimCF(profy)
    base = tempfile.mkdtemp(prefix='vf_c11h_')
    rw = os.path.join(base, 'rw')
    simlink.SIMS['sim://c11x'] = simlink.LinkSpec(devx, latency=0.001)
    simlink.SIMS['sim://c11y'] = simlink.LinkSpec(devy, latency=0.001)
    ob = {}
    cut = rnd.randint(3, 10 + nx)

    def fn(s):
        devx.now = devy.now = lambda: s.now
        cf = Crazyflie(rw_cache=rw)
        done = ds.Event()
        cf.connected.add_callback(lambda u: done.set())
        cf.connection_failed.add_callback(lambda u, m: done.set())
        spec = simlink.SIMS['sim://c11x']
        cf.open_link('sim://c11x')
        g = 0
        while spec.n_rx < cut and not done.is_set() and g < 100000:
            s.sleep(0.0005)
            g += 1
        ob['cut_before_connected'] = not done.is_set()
        cf.close_link()
        s.sleep(rnd.choice((0.0, 0.3)))
        done.clear()
        cf.open_link('sim://c11y')
        done.wait(300.0)
        s.sleep(0.3)
        ob['y_log'], ob['y_param'] = oracles.snapshot_toc(cf.log.toc), oracles.snapshot_toc(cf.param.toc)
        cf.close_link()
        s.sleep(0.3)
        cf2 = Crazyflie(rw_cache=rw)
        d2 = ds.Event()
        cf2.connected.add_callback(lambda u: d2.set())
        cf2.connection_failed.add_callback(lambda u, m: d2.set())
        cf2.open_link('sim://c11x')
        if desc['seed'] % 3 != 0 and cf2.link is not None:
            # answers to item requests of the session that was cut short are still on their way (device queue, radio):
            # they carry X's own entries, any index, and arrive anywhere during this download
            import struct as _st
            total = 12 + len(devx.log_toc) + len(devx.params)
            for _ in range(rnd.randint(1, 5)):
                port, count, item = rnd.choice(((5, len(devx.log_toc), devx.log_item), (2, len(devx.params), devx.param_item)))
                idx = rnd.randrange(count)
                cf2.link.inject(simcf.hdr(port, 0), bytes([2]) + _st.pack('<H', idx) + item(idx), rnd.uniform(0.0, 0.0022 * total))
                ob['stale'] = ob.get('stale', 0) + 1
        d2.wait(300.0)
        s.sleep(0.3)
        ob['x_log'], ob['x_param'] = oracles.snapshot_toc(cf2.log.toc), oracles.snapshot_toc(cf2.param.toc)
        cf2.close_link()
    try:
        _, abort, sch = harness.sched_case(fn, seed=desc['seed'], policy=('rtb', 'random')[desc['seed'] % 2], horizon=2000.0)
        ctx.evals()
        ctx.count('mon.interrupted_download_then_other_firmware_histories')
        ctx.count('mon.late_item_answers_of_the_interrupted_session_during_the_final_download', ob.get('stale', 0))
        ctx.nontrivial(('history', desc['seed']))
        rp = dict(desc)
        if abort is not None:
            ctx.violate('cache:history:connection-hangs', {'abort': str(abort)}, replay=rp)
            return
        for (name, exc, tb) in sch.deaths:
            ctx.violate('cache:history:thread-died:%s' % exc.split('(')[0], {'traceback': tb}, replay=rp)
        for label, got, exp in (('firmware-Y:log', ob.get('y_log'), oracles.expected_log(devy)),
                                ('firmware-Y:param', ob.get('y_param'), oracles.expected_param(devy)),
                                ('firmware-X-later:log', ob.get('x_log'), oracles.expected_log(devx)),
                                ('firmware-X-later:param', ob.get('x_param'), oracles.expected_param(devx))):
            for m, d in oracles.diff_table(label.split(':')[1], got, exp):
                ctx.violate('cache:history:%s:%s' % (label.split(':')[0], m), dict(d, cut_after_packets=cut), replay=rp)
        # every file in the cache holds the table of the firmware that announces that checksum
        from cflib.crazyflie.toc import Toc
        from cflib.crazyflie.toccache import TocCache
        want = {profx['log_crc']: oracles.expected_log(devx), profx['param_crc']: oracles.expected_param(devx),
                profy['log_crc']: oracles.expected_log(devy), profy['param_crc']: oracles.expected_param(devy)}
        for crc, exp in want.items():
            data = TocCache(rw_cache=rw).fetch(crc)
            if data:
                t = Toc()
                t.toc = data
                kind = 'log' if crc in (profx['log_crc'], profy['log_crc']) else 'param'
                bad = oracles.diff_table(kind, oracles.snapshot_toc(t), exp)
                bad = [b for b in bad if 'persistent' not in b[0]]       # (the persistence marker is not cached)
                if bad:
                    ctx.violate('cache:history:file-holds-a-table-its-firmware-never-announced:' + bad[0][0],
                                dict(bad[0][1], checksum='%08X' % crc), replay=rp)
    finally:
        shutil.rmtree(base, ignore_errors=True)


def run_shared(desc, ctx):
    """Two Crazyflie objects with different firmwares share one read-write cache directory (a swarm) and connect at
    the same time, pre-empted at statement level: afterwards every cache file holds the table of the firmware that
    announces its checksum, and fresh objects served from the cache see their own firmware's tables."""
    from vf import detsched as ds, simcf, simlink
    from cflib.crazyflie import Crazyflie
    rnd = random.Random(desc['seed'])
    profs = [gen.profile(desc['seed'] + 31 * i, rnd.randint(2, 9), rnd.randint(2, 9), proto=10) for i in range(2)]
    if desc['seed'] % 2 == 0:
        # tables of the same sizes: both downloads end - and both tables are stored - at the same moment
        nl, npar = rnd.randint(2, 9), rnd.randint(2, 9)
        profs = [gen.profile(desc['seed'] + 31 * i, nl, npar, proto=10) for i in range(2)]
    devs = [simcf.SimCF(p) for p in profs]
    base = tempfile.mkdtemp(prefix='vf_c11s_')
    rw = os.path.join(base, 'rw')
    uris = ['sim://c11s%d' % i for i in range(2)]
    lat = rnd.choice((0.0, 0.001))
    for u, d in zip(uris, devs):
        simlink.SIMS[u] = simlink.LinkSpec(d, latency=lat if desc['seed'] % 2 == 0 else rnd.choice((0.0, 0.001)))
    ob = {'tables': {}}

    def fn(s):
        for d in devs:
            d.now = lambda: s.now
        import threading

        # (the objects are constructed one after the other, as Swarm / CachedCfFactory does; constructing them
        # concurrently on a directory that does not exist yet can fail in os.makedirs - outside the statement)
        cfs = [Crazyflie(rw_cache=rw) for _ in range(2)]

        def member(i):
            cf = cfs[i]
            ev = ds.Event()
            cf.connected.add_callback(lambda u: ev.set())
            cf.connection_failed.add_callback(lambda u, m: ev.set())
            cf.open_link(uris[i])
            ev.wait(300.0)
            s.sleep(0.2)
            ob['tables'][('first', i)] = (oracles.snapshot_toc(cf.log.toc), oracles.snapshot_toc(cf.param.toc))
            cf.close_link()
        ths = [threading.Thread(target=member, args=(i,)) for i in range(2)]
        for t in ths:
            t.start()
        for t in ths:
            t.join()
        s.sleep(0.3)
        for i in range(2):
            cf = Crazyflie(rw_cache=rw)
            ev = ds.Event()
            cf.connected.add_callback(lambda u: ev.set())
            cf.connection_failed.add_callback(lambda u, m: ev.set())
            cf.open_link(uris[i])
            ev.wait(300.0)
            s.sleep(0.2)
            ob['tables'][('later', i)] = (oracles.snapshot_toc(cf.log.toc), oracles.snapshot_toc(cf.param.toc))
            cf.close_link()
    try:
        # (statements of the cache's store and fetch functions are pre-empted more often)
        _, abort, sch = harness.sched_case(fn, seed=desc['seed'], policy='random', line_p=(0.0, 0.1, 0.3)[desc['seed'] % 3], horizon=2000.0,
                                           max_steps=12_000_000, line_focus=('insert', 'fetch', '_toc_fetch_finished'),
                                           line_focus_p=0.5 if desc['seed'] % 3 else 0.0)
        ctx.evals()
        ctx.count('mon.two_firmwares_connecting_at_once_on_one_cache_directory')
        ctx.count('mon.statement_level_preemption_points', sch.line_points)
        ctx.nontrivial(('shared', desc['seed'], sch.signature()))
        rp = dict(desc)
        if abort is not None:
            ctx.violate('cache:shared:connection-hangs', {'abort': str(abort)}, replay=rp)
            return
        for (name, exc, tb) in sch.deaths:
            ctx.violate('cache:shared:thread-died:%s' % exc.split('(')[0], {'traceback': tb}, replay=rp)
        for (when, i), (lg, pm) in sorted(ob['tables'].items()):
            for kind, got, exp in (('log', lg, oracles.expected_log(devs[i])), ('param', pm, oracles.expected_param(devs[i]))):
                for m, d in oracles.diff_table(kind, got, exp):
                    ctx.violate('cache:shared:%s-connection:%s' % (when, m), dict(d, firmware=i), replay=rp)
        from cflib.crazyflie.toc import Toc
        from cflib.crazyflie.toccache import TocCache
        for i, p in enumerate(profs):
            for kind, crc, exp in (('log', p['log_crc'], oracles.expected_log(devs[i])), ('param', p['param_crc'], oracles.expected_param(devs[i]))):
                data = TocCache(rw_cache=rw).fetch(crc)
                if data:
                    t = Toc()
                    t.toc = data
                    bad = [b for b in oracles.diff_table(kind, oracles.snapshot_toc(t), exp) if 'persistent' not in b[0]]
                    if bad:
                        ctx.violate('cache:shared:file-holds-a-table-its-firmware-never-announced:' + bad[0][0],
                                    dict(bad[0][1], checksum='%08X' % crc, firmware=i), replay=rp)
        left = [f for f in os.listdir(rw) if not f.endswith('.json')] if os.path.isdir(rw) else []
        if left:
            ctx.count('obs.other_files_left_in_the_cache_directory', len(left))
    finally:
        shutil.rmtree(base, ignore_errors=True)


def run(desc, ctx):
    harness.init()
    worker_init()
    if desc.get('part') == 'shared':
        return run_shared(desc, ctx)
    if desc.get('part') == 'storeload':
        return run_store_load(desc, ctx)
    if desc.get('part') == 'history':
        return run_history(desc, ctx)
    rnd = random.Random(desc['seed'])
    prof = gen.profile(desc['seed'], desc['nlog'], desc['nparam'], proto=desc['proto'], latin=desc['latin'])
    if desc['crc'] == 'collide':
        prof['param_crc'] = prof['log_crc']
        ctx.count('mon.crc_collision_cases')
        if (desc['nlog'] == 0) != (desc['nparam'] == 0):
            ctx.count('mon.crc_collision_with_one_empty_table')
    elif desc['crc'] == 'near':
        prof['param_crc'] = prof['log_crc'] ^ rnd.choice((0x1, 0xF, 0x10, 0xF0000000))
    elif desc['crc'] == 'zero':
        prof['log_crc'] = 0
    elif desc['crc'] == 'ones':
        prof['param_crc'] = 0xFFFFFFFF
    base = tempfile.mkdtemp(prefix='vf_c11_')
    rp = dict(desc)

    def V(mech, detail):
        ctx.violate(mech, dict(detail, config=desc['config'], crc=desc['crc']), replay=rp)
    try:
        ro = os.path.join(base, 'ro')
        rw = os.path.join(base, 'rw')
        cfg = desc['config']
        use_ro = cfg != 'none' and cfg != 'rw'
        use_rw = cfg in ('rw', 'ro+rw', 'ro_corrupt+rw', 'ro_stale+rw')
        # ---- populate: a writable scratch cache filled by a real connection gives the file content
        scratch = os.path.join(base, 'scratch')
        ob0 = connect_once(prof, None, scratch, desc['seed'])
        dev = ob0['dev']
        exp_log, exp_param = oracles.expected_log(dev), oracles.expected_param(dev)

        def judge_conn(ob, label, expect_cache=None):
            ctx.evals()
            if ob['abort'] is not None:
                V('cache:%s:connection-hangs' % label, {'abort': str(ob['abort'])})
                return False
            for (name, exc, tb) in ob['deaths']:
                V('cache:%s:thread-died:%s' % (label, exc.split('(')[0]), {'traceback': tb})
            if ob['connected'] != 1:
                V('cache:%s:connected-%d-times' % (label, ob['connected']), {'failed': ob['failed']})
                return False
            bad = False
            for m, d in oracles.diff_table('log', ob['log'], exp_log) + oracles.diff_table('param', ob['param'], exp_param):
                V('cache:%s:%s' % (label, m), d)
                bad = True
            if ob.get('early'):
                ctx.count('mon.connects_with_a_parameter_notification_before_the_tables')
            for m, d in ob.get('lookup_issues', []):
                V('cache:%s:%s' % (label, m), d)
                bad = True
            return not bad
        judge_conn(ob0, 'populate')
        files = sorted(os.listdir(scratch)) if os.path.isdir(scratch) else []
        want_files = sorted({'%08X.json' % prof['log_crc'], '%08X.json' % prof['param_crc']})
        if files != want_files:
            V('cache:populate:files-written-differ', {'got': files, 'want': want_files})
        content = {}
        for f in files:
            with open(os.path.join(scratch, f), 'rb') as fh:
                content[f] = fh.read()
        # ---- set up the configuration under test
        if use_ro:
            os.makedirs(ro)
            for f in files:
                data = content[f]
                if cfg == 'ro_corrupt+rw':
                    data = data[:len(data) // 2]
                if cfg == 'ro_stale+rw':
                    f = '%08X.json' % ((int(f[:8], 16) + 1) & 0xFFFFFFFF)
                with open(os.path.join(ro, f), 'wb') as fh:
                    fh.write(data)
        if use_rw and cfg == 'rw':
            shutil.copytree(scratch, rw)
        ro_hash = _dirhash(ro) if use_ro else None
        _audit['events'].clear()
        seen0 = _audit['seen']
        # ---- re-connect with the cache in place
        ob1 = connect_once(prof, ro if use_ro else None, rw if use_rw else None, desc['seed'] + 1)
        judge_conn(ob1, 'cached')
        ctx.count('mon.cached_connects')
        hit_possible = (cfg in ('ro', 'rw', 'ro+rw'))
        if ob1['log_items_requested'] == 0 and desc['nlog'] > 0:
            ctx.count('mon.cache_hits')
            if not hit_possible and cfg != 'ro_corrupt+rw':
                V('cache:used-without-a-file-for-the-announced-crc', {'which': 'log'})
        if ob1['param_items_requested'] == 0 and desc['nparam'] > 0:
            ctx.count('mon.cache_hits')
            if not hit_possible and cfg != 'ro_corrupt+rw':
                V('cache:used-without-a-file-for-the-announced-crc', {'which': 'param'})
        if use_rw and cfg != 'rw':
            # the rw directory was empty: a third connection must now be served from it
            ob2 = connect_once(prof, ro if use_ro else None, rw, desc['seed'] + 2)
            judge_conn(ob2, 'cached-from-rw')
            ctx.count('mon.cached_connects')
        # ---- read-only directory never written
        if use_ro:
            ctx.count('mon.ro_dir_audited')
            ctx.count('mon.audit_events_seen', _audit['seen'] - seen0)
            touched = [e for e in _audit['events'] if os.path.abspath(e[1]).startswith(ro + os.sep) or os.path.abspath(e[1]) == ro]
            if touched:
                V('cache:read-only-directory-written', {'events': touched[:5]})
            if _dirhash(ro) != ro_hash:
                V('cache:read-only-directory-content-changed', {})
        # ---- truncation at every byte offset: fetch must miss
        from cflib.crazyflie.toccache import TocCache
        tdir = os.path.join(base, 'trunc')
        os.makedirs(tdir)
        offsets_for_connect = []
        for f in files:
            crc = int(f[:8], 16)
            data = content[f]
            for off in range(len(data)):
                with open(os.path.join(tdir, f), 'wb') as fh:
                    fh.write(data[:off])
                ctx.evals()
                ctx.count('mon.truncation_offsets')
                ctx.nontrivial((core.h64(prof), 'trunc', f, off))
                try:
                    r = TocCache(ro_cache=tdir).fetch(crc)
                except Exception as e:  # noqa
                    V('cache:fetch-raised-on-truncated-file', {'file': f, 'offset': off, 'error': repr(e)},)
                    break
                if r:
                    V('cache:truncated-file-yielded-a-table', {'file': f, 'offset': off, 'entries': len(r)})
                    break
                offsets_for_connect.append((f, off))
            os.remove(os.path.join(tdir, f))
        # ---- connections with a truncated file in the rw directory (sampled)
        rnd.shuffle(offsets_for_connect)
        picks = offsets_for_connect[:desc['connect_samples']]
        for (f, off) in picks:
            d2 = os.path.join(base, 'rw_t')
            shutil.rmtree(d2, ignore_errors=True)
            shutil.copytree(scratch, d2)
            with open(os.path.join(d2, f), 'wb') as fh:
                fh.write(content[f][:off])
            ob = connect_once(prof, None, d2, desc['seed'] + 7 + off)
            judge_conn(ob, 'truncated-file')
            ctx.count('mon.truncated_connects')
            # the repaired file must be complete again
            with open(os.path.join(d2, f), 'rb') as fh:
                now = fh.read()
            try:
                json.loads(now.decode('utf8'))
            except Exception:
                V('cache:file-still-corrupt-after-download', {'file': f, 'offset': off})
        # ---- a file that was there when the Crazyflie object was created and is missing / unreadable at connect
        # (the cache directories are listed once, at construction)
        for f in files:
            for how in ('deleted', 'replaced-by-directory', 'dangling-symlink'):
                for where in ('rw', 'ro'):
                    d2 = os.path.join(base, 'van_' + where)
                    shutil.rmtree(d2, ignore_errors=True)
                    shutil.copytree(scratch, d2)
                    target = os.path.join(d2, f)

                    def vanish(target=target, how=how):
                        os.remove(target)
                        if how == 'replaced-by-directory':
                            os.mkdir(target)
                        elif how == 'dangling-symlink':
                            os.symlink(target + '.gone', target)
                    ob = connect_once(prof, d2 if where == 'ro' else None, d2 if where == 'rw' else None,
                                      desc['seed'] + 31, after_construct=vanish)
                    judge_conn(ob, 'file-missing-at-connect:' + how)
                    ctx.count('mon.files_vanished_before_connect')
                    ctx.nontrivial((core.h64(prof), 'vanish', f, how, where))
        # ---- well-formed JSON that lacks a field of some or all elements (e.g. a file written by a version that did
        # not store that field yet): whatever the library makes of it, the tables at `connected` must be the device's
        for f in files:
            try:
                doc = json.loads(content[f].decode('utf8'))
            except Exception:
                continue
            elems = [e for g in doc.values() if isinstance(g, dict) for e in g.values() if isinstance(e, dict)]
            keys = sorted({k for e in elems for k in e if k != '__class__'})
            for key in keys:
                for scope in ('all', 'one'):
                    doc2 = json.loads(content[f].decode('utf8'))
                    el2 = [e for g in doc2.values() if isinstance(g, dict) for e in g.values() if isinstance(e, dict)]
                    if not el2:
                        continue
                    for e in (el2 if scope == 'all' else [el2[rnd.randrange(len(el2))]]):
                        e.pop(key, None)
                    d2 = os.path.join(base, 'rw_f')
                    shutil.rmtree(d2, ignore_errors=True)
                    shutil.copytree(scratch, d2)
                    with open(os.path.join(d2, f), 'w') as fh:
                        json.dump(doc2, fh)
                    ob = connect_once(prof, d2 if key < 'i' else None, None if key < 'i' else d2, desc['seed'] + 57)
                    judge_conn(ob, 'field-missing-in-file:' + key)
                    ctx.count('mon.files_with_a_field_missing')
                    ctx.nontrivial((core.h64(prof), 'field', f, key, scope))
        # ---- garbling that breaks JSON
        for f in files:
            for _ in range(3):
                data = bytearray(content[f])
                if not data:
                    continue
                for _k in range(rnd.randint(1, 4)):
                    data[rnd.randrange(len(data))] = rnd.choice(b'{}[]",:\\x\x00\xff')
                try:
                    json.loads(bytes(data).decode('utf8'))
                    continue      # still parses: outside the statement
                except Exception:
                    pass
                d2 = os.path.join(base, 'rw_g')
                shutil.rmtree(d2, ignore_errors=True)
                shutil.copytree(scratch, d2)
                with open(os.path.join(d2, f), 'wb') as fh:
                    fh.write(bytes(data))
                ob = connect_once(prof, d2, None, desc['seed'] + 99)
                judge_conn(ob, 'garbled-file')
                ctx.count('mon.garbled_files')
                ctx.nontrivial((core.h64(prof), 'garble', f, core.h64(bytes(data))))
        # ---- files that are valid JSON but hold no table (written by something else, or an empty editor save)
        for f in files[:1] if desc['seed'] % 2 else files[-1:]:
            for data in (b'[1]', b'7', b'null', b'"x"', b'{"a": 1}', b'{"a": {"b": 2}}', b'[]'):
                d2 = os.path.join(base, 'rw_j')
                shutil.rmtree(d2, ignore_errors=True)
                shutil.copytree(scratch, d2)
                with open(os.path.join(d2, f), 'wb') as fh:
                    fh.write(data)
                ob = connect_once(prof, d2, None, desc['seed'] + 123)
                judge_conn(ob, 'file-holds-json-that-is-no-table')
                ctx.count('mon.files_with_json_that_is_no_table')
                ctx.nontrivial((core.h64(prof), 'json-no-table', f, data))
        ctx.sample({'config': cfg, 'crc_mode': desc['crc'], 'nlog': desc['nlog'], 'nparam': desc['nparam'],
                    'files': {f: len(content[f]) for f in files}, 'items_requested_with_cache':
                    [ob1['log_items_requested'], ob1['param_items_requested']],
                    'truncation_offsets': sum(len(content[f]) for f in files)})
    finally:
        shutil.rmtree(base, ignore_errors=True)
