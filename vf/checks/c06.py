"""C06 - memory reads and writes are exact, complete and never wedge the subsystem.

Real Crazyflie + Memory subsystem under detsched against simcf memories holding random images.
Monitors: port-4 packets at the device, device images before/after, the four completion Callers
(request-tagged), Memory lock / pending-request records after each history.
"""
import random
import struct

from vf import core, gen, harness, simcf

PROPERTY = 'C06'
LEVEL = 'fault_enumeration'
RULE = ('case = (1..3 memories with random images, incl. one mapped near 2^32 and a device with up to 200 memories; '
        'history of <=6 reads / queued writes (lengths 0,1,19..21,24..26,39..41,49..51,100,random<=600; flush_queue on '
        'some) issued back-to-back or with waits; fault script in {none, every reply duplicated (immediately / delayed), '
        'error status on the k-th chunk for every k, link drop after the k-th memory reply for every k (driver / sender '
        'reported), lossy link with retry timers}; scheduler policy+seed). Fault positions k are enumerated completely '
        'per history. distinct_nontrivial = distinct (history hash, fault script, k, port-4 wire hash).')
ASSUMPTIONS = ['device memory protocol as in the firmware: read reply <=24 data bytes, write 5-byte header',
               'duplicates are drained before a conflicting request is issued (a stale reply may legitimately carry old data)']
REQUIRED = ['mon.refused_writes_tried_again_from_the_failure_callback', 'mon.requests_issued_while_another_thread_handles_the_loss_of_the_link', 'mon.queued_write_pairs_with_the_second_write_below_the_first', 'mon.deck_reads_failing_without_a_failure_callback', 'mon.writes_with_a_progress_callback', 'mon.empty_writes_with_a_progress_callback', 'mon.tester_reads', 'mon.tester_writes', 'mon.tester_writes_crossing_a_256_byte_boundary_with_a_remainder', 'mon.tester_reads_over_a_corrupted_byte',
            'mon.reads_completed', 'mon.writes_completed', 'mon.failed_notifications', 'mon.images_compared',
            'mon.chunk_requests', 'mon.probe_after_history', 'mon.link_drop_runs', 'mon.error_status_runs',
            'mon.requests_issued_while_no_link_is_open', 'mon.deck_memory_requests_issued_from_a_completion_callback',
            'mon.duplicate_reply_runs', 'mon.lossy_runs', 'mon.high_address_runs']
DESC_TIMEOUT = 900

LENS = [0, 1, 19, 20, 21, 24, 25, 26, 39, 40, 41, 49, 50, 51, 100]


def cases(tier, seed):
    rnd = random.Random(seed * 15485863 + 9)
    out = []
    n = 200 if tier == 'quick' else 900
    faults = ['none', 'dup', 'dupdelay', 'err', 'drop_driver', 'drop_sender', 'lossy']
    for i in range(n):
        out.append({'seed': seed * 1000003 + i, 'fault': faults[i % len(faults)], 'nmem': rnd.randint(1, 3),
                    'nops': rnd.randint(1, 6), 'sched': rnd.choice(('rtb', 'random', 'random', 'pct')),
                    'line_p': rnd.choice((0.0, 0.0, 0.03)) if not faults[i % len(faults)].startswith('drop') else rnd.choice((0.0, 0.03, 0.03)), 'high': i % 5 == 0, 'many': i % 23 == 7,
                    'kmax': 6 if tier == 'quick' else 14})
    out += [{'part': 'deck', 'seed': seed * 37 + i, 'n': 40} for i in range(2 if tier == 'quick' else 10)]
    out += [{'part': 'tester', 'seed': seed * 41 + i, 'n': 8} for i in range(16 if tier == 'quick' else 100)]
    out += [{'part': 'dupq', 'seed': seed * 43 + i, 'n': 10} for i in range(16 if tier == 'quick' else 100)]
    out += [{'part': 'droprace', 'seed': seed * 47 + i} for i in range(160 if tier == 'quick' else 1200)]
    return out


def gen_history(rnd, mems, nops):
    ops = []
    for _ in range(nops):
        m = rnd.randrange(len(mems))
        size = mems[m]['len']
        ln = rnd.choice(LENS + [rnd.randint(0, min(600, size))] * 4)
        ln = min(ln, size)
        off = rnd.randint(0, size - ln)
        addr = min(mems[m]['origin'] + off, 0xFFFFFFFF)      # (an address is a 32-bit number also for an empty request)
        if rnd.random() < 0.5:
            ops.append({'k': 'read', 'm': m, 'addr': addr, 'len': ln, 'wait': rnd.random() < 0.6})
        else:
            ops.append({'k': 'write', 'm': m, 'addr': addr, 'data': bytes(rnd.getrandbits(8) for _ in range(ln)).hex(),
                        'flush': rnd.random() < 0.2, 'wait': rnd.random() < 0.4})
    return ops


def one_run(desc, k, calibrate=False):
    from vf import detsched as ds, simlink
    from cflib.crazyflie import Crazyflie
    rnd = random.Random(desc['seed'])
    mems = []
    nm = desc['nmem'] if not desc['many'] else rnd.randint(100, 200)
    for i in range(nm):
        ln = rnd.choice((64, 200, 700)) if i < 3 else 8
        origin = 0
        if desc['high'] and i == 0:
            origin = 2 ** 32 - ln
        mems.append({'type': 0x30 + (i % 3), 'size': ln if origin == 0 else 0xFFFFFFFF, 'len': ln, 'origin': origin,
                     'data': bytes(rnd.getrandbits(8) for _ in range(ln)).hex()})
    hist = gen_history(rnd, mems[:3], desc['nops'])
    prof = gen.profile(desc['seed'], 1, 1, proto=10, mems=mems)
    dev = simcf.SimCF(prof)
    fault = desc['fault']
    spec = simlink.LinkSpec(dev, needs_resending=(fault == 'lossy'), latency=0.001)
    uri = 'sim://c06'
    simlink.SIMS[uri] = spec
    res = {'hist': hist, 'notes': [], 'completions': [], 'refused': [], 'fired': False, 'problems': [],
           'issued': [], 'images0': [bytes(m['data']) for m in dev.mems]}

    def fn(s):
        dev.now = lambda: s.now
        cf = Crazyflie()
        done = ds.Event()
        cf.connected.add_callback(lambda u: done.set())
        cf.connection_failed.add_callback(lambda *a: done.set())
        cf.open_link(uri)
        if not done.wait(300.0) or len(cf.mem.mems) != len(dev.mems):
            res['problems'].append('connect failed or memories not enumerated (%d of %d)' % (len(cf.mem.mems), len(dev.mems)))
            return
        s.sleep(0.3)
        res['t0_tx'], res['t0_rx'] = len(spec.tx), len(spec.rx)
        res['ev0'] = len(dev.events)

        def hook(m):
            m.mem_read_cb.add_callback(lambda mem, addr, data: res['completions'].append(('read_ok', mem.id, addr, bytes(data), spec.seq)))
            m.mem_read_failed_cb.add_callback(lambda mem, addr, data: res['completions'].append(('read_fail', mem.id, addr, bytes(data), spec.seq)))
            m.mem_write_cb.add_callback(lambda mem, addr: res['completions'].append(('write_ok', mem.id, addr, None, spec.seq)))
            m.mem_write_failed_cb.add_callback(lambda mem, addr: res['completions'].append(('write_fail', mem.id, addr, None, spec.seq)))
        hook(cf.mem)
        session1_mems = [cf.mem.get_mem(mi) for mi in range(min(3, len(dev.mems)))]
        # ---- fault scripts (armed only now, the connection itself is fault-free)
        mem_replies = {'n': 0}
        if not calibrate:
            if fault in ('dup', 'dupdelay'):
                drnd = random.Random(desc['seed'] ^ 0xD0)

                def pol(sp, n, h, d):
                    if (h >> 4) != 4:
                        return [(0.0, h, d)]
                    return [(0.0, h, d), (0.0 if fault == 'dup' else drnd.uniform(0.0005, 0.004), h, d)]
                spec.reply_policy = pol
            elif fault == 'err':
                cnt = {'n': 0}

                def st(kind, mid, addr, seq):
                    cnt['n'] += 1
                    if cnt['n'] == k:
                        res['fired'] = True
                        return random.Random(desc['seed'] + k).choice((simcf.EIO, simcf.ENOENT, 1, 255))
                    return None
                dev.hooks['mem_status'] = st
            elif fault.startswith('drop'):
                spec.fail_reporter = 'driver' if fault == 'drop_driver' else 'sender'
                if fault == 'drop_driver':
                    spec.fail_after_rx = spec.sess_rx + k
                else:
                    spec.fail_after_tx = spec.sess_tx + k
            elif fault == 'lossy':
                spec.reply_policy = gen.make_reply_policy('lossy', desc['seed'] + k, p=0.25)
                spec.tx_filter = gen.make_tx_filter(desc['seed'] + k, p=0.25)
        del mem_replies

        def settle(maxt):
            # wait until no request is pending in the library (bounded)
            t_end = s.now + maxt
            while s.now < t_end:
                pend = bool(cf.mem._read_requests) or any(cf.mem._write_requests.get(i) for i in cf.mem._write_requests)
                if not pend:
                    break
                s.sleep(0.01)
            s.sleep(0.02)

        for j, op in enumerate(hist):
            mem = cf.mem.get_mem(op['m'])
            if mem is None:
                res['notes'].append('link dropped: memory list cleared before op %d' % j)
                break
            stamp = spec.seq
            if op['k'] == 'read':
                ok = cf.mem.read(mem, op['addr'], op['len'])
                res['issued'].append({'j': j, 'op': op, 'accepted': ok is not False, 'stamp': stamp})
            else:
                if (j + len(op['data'])) % 3 == 0:
                    # the way a user interface writes: with a progress callback (message, percent)
                    prog = []
                    res.setdefault('progress', []).append((j, len(op['data']) // 2, prog))
                    ok = cf.mem.write(mem, op['addr'], bytes.fromhex(op['data']), flush_queue=op['flush'],
                                      progress_cb=lambda msg, pct, prog=prog: prog.append(pct))
                else:
                    ok = cf.mem.write(mem, op['addr'], bytes.fromhex(op['data']), flush_queue=op['flush'])
                res['issued'].append({'j': j, 'op': op, 'accepted': ok is not False, 'stamp': stamp})
            if op['wait'] or fault in ('dup', 'dupdelay'):
                settle(40.0)
        settle(60.0)
        s.sleep(0.5)
        res['fault_fired'] = spec.faults_fired > 0 or res['fired']
        res['end_seq'] = spec.seq
        res['after'] = {'lock': cf.mem._write_requests_lock.locked(), 'reads': dict(cf.mem._read_requests),
                        'writes': {i: len(v) for i, v in cf.mem._write_requests.items() if v}}
        res['t1_rx'] = len(spec.rx)
        res['t1_tx'] = len(spec.tx)
        res['ev1'] = len(dev.events)
        res['images1'] = [bytes(m['data']) for m in dev.mems]
        # ---- afterwards further requests are still served (reconnect first if the link was dropped)
        spec.reply_policy = None
        spec.tx_filter = None
        dev.hooks.pop('mem_status', None)
        spec.fail_after_rx = spec.fail_after_tx = None
        if cf.link is not None and not calibrate and desc['seed'] % 3 == 0:
            cf.close_link()
            s.sleep(0.2)
            res['closed_by_harness'] = True
        if cf.link is None:
            # requests issued while no link is open (an application still holding the memory objects of the last
            # session): refused, nothing transmitted, nothing left behind for the next session
            t_tx = len(spec.tx)
            n_comp = len(res['completions'])
            refused = []
            for m_old in session1_mems:
                if m_old is None:
                    continue
                o = dev.mems[m_old.id]['origin']
                refused.append(('write', m_old.id, cf.mem.write(m_old, o + 2, b'\x11\x22')))
                refused.append(('read', m_old.id, cf.mem.read(m_old, o, 4)))
            s.sleep(1.5)
            res['offline_requests'] = {'returns': refused, 'transmitted': len(spec.tx) - t_tx,
                                       'notifications': len(res['completions']) - n_comp}
            done.clear()
            cf.open_link(uri)
            if not done.wait(300.0):
                res['problems'].append('reconnect after link drop failed')
                return
            s.sleep(0.3)
            hook(cf.mem)
        probe = []
        cf.mem.mem_read_cb.add_callback(lambda mem, addr, data: probe.append(('r', mem.id, addr, bytes(data))))
        cf.mem.mem_write_cb.add_callback(lambda mem, addr: probe.append(('w', mem.id, addr)))
        for mi in range(min(3, len(dev.mems))):
            mem = cf.mem.get_mem(mi)
            o = dev.mems[mi]['origin']
            res.setdefault('probe_issued', []).append(mi)
            cf.mem.write(mem, o + 1, b'\xa5\x5a\xc3')
            cf.mem.read(mem, o, 8)
        s.sleep(2.0)
        res['probe'] = probe
        res['probe_expect'] = [(mi, bytes(dev.mems[mi]['data'][:8])) for mi in range(min(3, len(dev.mems)))]
        cf.close_link()

    # statements of the request entry points and of the disconnect handling are pre-empted more often (a request issued by
    # the application thread at the very moment another thread handles the loss of the link)
    _, abort, s = harness.sched_case(fn, seed=desc['seed'] * 7 + k, policy=desc['sched'], line_p=desc['line_p'],
                                     horizon=4000.0, max_steps=6_000_000,
                                     line_focus=('read', 'write', '_disconnected', '_clear_state', '_link_error_cb'),
                                     line_focus_p=0.5 if desc['line_p'] > 0 else 0.0)
    res['abort'], res['sched'], res['spec'], res['dev'] = abort, s, spec, dev
    return res


def _attribute_writes(issued, tx):
    """Map each issued write (by index j) to the wire sequence number of its first chunk, walking the
    write packets of each memory in order against the submitted writes in order."""
    started = {}
    bymem = {}
    for it in issued:
        if it['op']['k'] == 'write' and it['accepted']:
            bymem.setdefault(it['op']['m'], []).append(it)
    for mid, its in bymem.items():
        pk = [(t[5], struct.unpack('<I', t[3][1:5])[0], bytes(t[3][5:])) for t in tx if t[2] & 3 == 2 and t[3][0] == mid]
        i = 0
        for it in its:
            data = bytes.fromhex(it['op']['data'])
            first = (it['op']['addr'], data[:25])
            # find the first not yet consumed packet that is this write's first chunk
            jx = i
            while jx < len(pk) and not ((pk[jx][1], pk[jx][2]) == first and pk[jx][0] >= it['stamp']):
                jx += 1
            if jx < len(pk):
                started[it['j']] = pk[jx][0]
                i = jx + 1
    return started


def judge(desc, k, res, ctx, rp):
    s, spec, dev = res['sched'], res['spec'], res['dev']
    fault = desc['fault']

    def V(mech, detail):
        ctx.violate(mech, dict(detail, fault=fault, k=k), replay=rp)
    if res['abort'] is not None:
        V('mem:hang:%s' % type(res['abort']).__name__,
          {'abort': str(res['abort']), 'threads': res['abort'].table, 'history': res['hist']})
        return
    for (name, exc, tb) in s.deaths:
        V('mem:thread-died:%s:%s' % (name.split('#')[0], exc.split('(')[0]), {'traceback': tb})
    if res['problems']:
        V('mem:' + res['problems'][0].split('(')[0].strip().replace(' ', '-'), {'problem': res['problems'][0]})
        return
    dropped = fault.startswith('drop') and res.get('fault_fired')
    tx = [t for t in spec.tx[res['t0_tx']:res['t1_tx']] if (t[2] >> 4) & 0xF == 4]
    # ---- protocol limits on every request
    for t in tx:
        ch, d = t[2] & 3, t[3]
        ctx.count('mon.chunk_requests')
        if len(d) > 30:
            V('mem:request-larger-than-30-bytes', {'len': len(d)})
        if ch == 1 and d[5] > 24:
            V('mem:read-chunk-asks-more-than-a-reply-can-carry', {'asked': d[5]})
        if ch == 2 and len(d) - 5 > 25:
            V('mem:write-chunk-larger-than-25-bytes', {'len': len(d) - 5})
    # ---- per-request completion accounting
    comps = [c for c in res['completions'] if c[4] <= res.get('end_seq', 1 << 60)]
    started = _attribute_writes(res['issued'], tx)
    issued = res['issued']
    expected_image = [bytearray(b) for b in res['images0']]
    mustfail_all = False
    for it in issued:
        op, j = it['op'], it['j']
        mid = op['m']
        o = dev.mems[mid]['origin']
        if op['k'] == 'read':
            mine = [c for c in comps if c[0] in ('read_ok', 'read_fail') and c[1] == mid and c[2] == op['addr'] and c[4] >= it['stamp']]
            if not it['accepted']:
                continue      # refused because another read of that memory was pending (documented)
            want = bytes(res['images0'][mid][op['addr'] - o:op['addr'] - o + op['len']])
            oks = [c for c in mine if c[0] == 'read_ok']
            fails = [c for c in mine if c[0] == 'read_fail']
            # several reads of the same (mem, addr) in one history: attribute in order
            if not mine:
                V('mem:read-request-never-completed', {'op': op, 'after': res['after']})
                continue
            c = mine[0]
            comps.remove(c)
            if c[0] == 'read_ok':
                ctx.count('mon.reads_completed')
                # concurrent writes of this history to the same memory make the expected content ambiguous: only
                # compare when no write to this memory was issued before this read completed
                writes_before = [x for x in issued if x['op']['k'] == 'write' and x['op']['m'] == mid and x['stamp'] <= c[4]]
                if not writes_before and c[3] != want:
                    V('mem:read-returned-wrong-bytes', {'op': op, 'got': c[3].hex(), 'want': want.hex()})
                elif writes_before and len(c[3]) != op['len']:
                    V('mem:read-returned-wrong-length', {'op': op, 'got': len(c[3])})
            else:
                ctx.count('mon.failed_notifications')
                if fault in ('none', 'dup', 'dupdelay', 'lossy'):
                    V('mem:read-failed-without-a-fault', {'op': op})
            del oks, fails
        else:
            if not it['accepted']:
                continue
            mine = [c for c in comps if c[0] in ('write_ok', 'write_fail') and c[1] == mid and c[2] == op['addr'] and c[4] >= it['stamp']]
            # superseded?  a later flush_queue write on the same memory, issued while this one had not been started
            # (writes are attributed to wire packets in submission order, see _attribute_writes)
            first_tx = started.get(j)
            later_flush = [x for x in issued if x['j'] > j and x['op']['k'] == 'write' and x['op']['m'] == mid and
                           x['op']['flush'] and x['accepted']]
            superseded = any(first_tx is None or first_tx > x['stamp'] for x in later_flush)
            if superseded:
                # dropped from the queue before it was started: it owes no notification, and a completion for the same
                # address belongs to a later write (an unexpected one is reported below as a completion for no request)
                continue
            if not mine:
                if not superseded:
                    V('mem:write-request-never-completed', {'op': {k_: v for k_, v in op.items() if k_ != 'data'},
                                                            'len': len(op['data']) // 2, 'after': res['after']})
                continue
            c = mine[0]
            comps.remove(c)
            if c[0] == 'write_ok':
                ctx.count('mon.writes_completed')
                data = bytes.fromhex(op['data'])
                expected_image[mid][op['addr'] - o:op['addr'] - o + len(data)] = data
            else:
                ctx.count('mon.failed_notifications')
                mustfail_all = True
                if fault in ('none', 'dup', 'dupdelay', 'lossy'):
                    V('mem:write-failed-without-a-fault', {'op': {k_: v for k_, v in op.items() if k_ != 'data'}})
    if comps:
        V('mem:completion-notified-more-than-once-or-for-no-request', {'extra': [(c[0], c[1], c[2]) for c in comps][:5]})
    # ---- device image: only completely written ranges changed (when nothing failed midway)
    if not mustfail_all and not dropped and fault != 'err':
        for mid in range(min(3, len(dev.mems))):
            ctx.count('mon.images_compared')
            if bytes(expected_image[mid]) != res['images1'][mid]:
                diff = [i for i in range(len(res['images1'][mid])) if expected_image[mid][i] != res['images1'][mid][i]]
                V('mem:device-image-differs-from-written-data', {'mem': mid, 'first_diff_offsets': diff[:8],
                                                                'history': [{k_: (v if k_ != 'data' else len(v) // 2) for k_, v in x['op'].items()} for x in issued]})
    # ---- queued writes to one memory reach the device in submission order, chunks contiguous
    evs = [e for e in dev.events[res['ev0']:res['ev1']] if e[0] == 'mem_write']
    for mid in range(min(3, len(dev.mems))):
        seq = [(e[2], len(e[3])) for e in evs if e[1] == mid and e[4] == 0]
        want = []
        for it in issued:
            op = it['op']
            if op['k'] == 'write' and op['m'] == mid and it['accepted']:
                n = len(op['data']) // 2
                a = op['addr']
                chunks = []
                while True:
                    c = min(25, n)
                    chunks.append((a, c))
                    a += c
                    n -= c
                    if n <= 0:
                        break
                want.append(chunks)
        # the device sequence must be a concatenation of (prefixes of) the wanted chunk lists in order; a chunk may be seen
        # again right away when the fault model retransmits.  Two different writes may begin with the same chunk, so this
        # is decided by simulating all readings (state = last chunk consumed), not by collapsing equal neighbours.
        dedup = list(seq)
        retries = fault in ('dup', 'dupdelay')
        states = {(-1, 0)}
        for x in seq:
            nxt = set()
            for (w, i) in states:
                if w >= 0 and retries and want[w][i] == x:
                    nxt.add((w, i))
                if w >= 0 and i + 1 < len(want[w]) and want[w][i + 1] == x:
                    nxt.add((w, i + 1))
                for w2 in range(w + 1, len(want)):
                    if want[w2][0] == x:
                        nxt.add((w2, 0))
            states = nxt
            if not states:
                break
        okorder = bool(states) or fault not in ('none', 'dup', 'dupdelay')
        if not okorder:
            V('mem:writes-reached-device-out-of-order-or-non-contiguous', {'mem': mid, 'device_sequence': dedup[:12],
                                                                         'submitted': want[:4]})
    # ---- progress reports of writes: percentages never decrease, stay within 0..100, and a write that completed (no
    # fault) ended on 100
    for (j, ln, prog) in res.get('progress', []):
        ctx.count('mon.writes_with_a_progress_callback')
        if ln == 0:
            ctx.count('mon.empty_writes_with_a_progress_callback')
        if any(b < a_ for a_, b in zip(prog, prog[1:])) or any(not (0 <= x <= 100) for x in prog) or \
                (fault == 'none' and prog and prog[-1] != 100):
            V('mem:write-progress-reports-not-monotonic-within-0-100', {'length': ln, 'reports': prog[:12]})
    # ---- nothing left behind; further requests are served
    a = res['after']
    if a['lock']:
        V('mem:write-lock-left-locked', a)
    if (a['reads'] or a['writes']) and not dropped:
        V('mem:pending-request-record-left-behind', {'reads': list(a['reads']), 'writes': a['writes']})
    off = res.get('offline_requests')
    if off is not None:
        ctx.count('mon.requests_issued_while_no_link_is_open', len(off['returns']))
        if off['transmitted'] or off['notifications'] or any(r[2] for r in off['returns']):
            V('mem:request-without-a-link-not-refused-cleanly', off)
    ctx.count('mon.probe_after_history')
    pr = res.get('probe', [])
    for (mi, first8) in res.get('probe_expect', []):
        if ('w', mi, dev.mems[mi]['origin'] + 1) not in pr or not any(p[0] == 'r' and p[1] == mi and p[3] == first8 for p in pr):
            V('mem:subsystem-wedged-probe-request-not-served', {'mem': mi, 'probe_completions': [p[:3] for p in pr]})
            break


class _DeferredMemHandler:
    """mem_handler of a MemoryElement whose completions arrive later (as over a link): requests are queued and completed
    one at a time by pump()."""

    def __init__(self, size):
        self.image = bytearray(size)
        self.pending = []
        self.fail_next_read = False

    def read(self, mem, addr, length):
        self.pending.append(('r', mem, addr, length))
        return True

    def write(self, mem, addr, data, flush_queue=False, progress_cb=None):
        self.pending.append(('w', mem, addr, bytes(bytearray(data))))
        return True

    def pump(self):
        n = 0
        while self.pending and n < 1000:
            n += 1
            kind, mem, addr, x = self.pending.pop(0)
            if kind == 'r':
                if self.fail_next_read:
                    self.fail_next_read = False
                    mem._new_data_failed(mem, addr, bytearray())
                else:
                    mem._new_data(mem, addr, bytearray(self.image[addr:addr + x]))
            else:
                self.image[addr:addr + len(x)] = x
                mem._write_done(mem, addr)


def run_deck(desc, ctx):
    """Deck memory (a memory element with a manager-level pending-request record of its own): every read / write gets
    exactly one notification with the device's bytes - also when the next request is issued from inside the completion
    callback of the previous one - and nothing is left pending afterwards."""
    import struct
    from cflib.crazyflie.mem.deck_memory import DeckMemoryManager
    rnd = random.Random(desc['seed'])
    for it in range(desc.get('n', 30)):
        h = _DeferredMemHandler(0x4000)
        bases = [0x1000, 0x2000]
        img = bytes([3])
        for i in range(8):
            if i < 2:
                rec = bytes([1 | 2 | 4 | 8, 0]) + struct.pack('<LLL', 0, 0, bases[i]) + ('deck%d' % i).encode().ljust(18, b'\0')
            else:
                rec = bytes(32)
            img += rec
        h.image[:len(img)] = img
        for b in bases:
            h.image[b:b + 0x200] = bytes(rnd.getrandbits(8) for _ in range(0x200))
        mgr = DeckMemoryManager(id=5, type=0x19, size=0x4000, mem_handler=h)
        found = []
        mgr.query_decks(lambda d: found.append(d))
        h.pump()
        if len(found) != 1 or sorted(found[0]) != [0, 1]:
            ctx.violate('mem:deck:query-did-not-find-the-decks', {'found': [sorted(f) for f in found]})
            continue
        decks = found[0]
        notes = []        # (request id, kind, addr, data)
        plan = []
        for q in range(rnd.randint(2, 6)):
            plan.append((rnd.choice(('r', 'r', 'w')), rnd.randrange(2), rnd.randrange(0, 0x180), rnd.randint(1, 60),
                         rnd.random() < 0.6))    # last: issued from inside the previous completion callback
        expect = []
        refused = []

        def issue(qi):
            if qi >= len(plan):
                return
            kind, di, addr, ln, chained = plan[qi]
            nxt_chained = qi + 1 < len(plan) and plan[qi + 1][4]

            def done_r(a, data, qi=qi):
                notes.append((qi, 'read', a, bytes(data)))
                if nxt_chained:
                    issue(qi + 1)

            def done_w(a, qi=qi):
                notes.append((qi, 'write', a, None))
                if nxt_chained:
                    issue(qi + 1)
            try:
                if kind == 'r':
                    expect.append((qi, 'read', addr, bytes(h.image[bases[di] + addr:bases[di] + addr + ln])))
                    decks[di].read(addr, ln, done_r, lambda a, qi=qi: notes.append((qi, 'read_failed', a, None)))
                else:
                    data = bytes(rnd.getrandbits(8) for _ in range(ln))
                    expect.append((qi, 'write', None, None))
                    decks[di].write(addr, data, done_w, lambda a, qi=qi: notes.append((qi, 'write_failed', a, None)))
            except Exception as e:  # noqa
                refused.append((qi, repr(e)))
        qi = 0
        while qi < len(plan):
            issue(qi)
            h.pump()
            # the chain started at qi ran as far as it was chained
            qi += 1
            while qi < len(plan) and plan[qi][4]:
                qi += 1
        ctx.evals()
        ctx.count('mon.deck_memory_requests', len(plan))
        ctx.count('mon.deck_memory_requests_issued_from_a_completion_callback', sum(1 for q in plan[1:] if q[4]))
        ctx.nontrivial(('deck', desc['seed'], it))
        ok = not refused and len(notes) == len(expect)
        if ok:
            for (qi_, kind, addr, data), n in zip(expect, sorted(notes)):
                if n[0] != qi_ or n[1] != kind or (kind == 'read' and (n[2] != addr or n[3] != data)):
                    ok = False
        if not ok:
            ctx.violate('mem:deck:request-not-notified-exactly-once-with-the-device-bytes',
                        {'plan': [(q[0], q[1], q[2], q[3], q[4]) for q in plan], 'refused': refused[:3],
                         'notifications': [(n[0], n[1]) for n in notes]}, replay={'part': 'deck', 'seed': desc['seed'], 'n': it + 1})
            continue
        # a failed read is notified once and leaves nothing behind
        fails = []
        h.fail_next_read = True
        with_cb = rnd.random() < 0.5        # the failure callback is optional
        if not with_cb:
            ctx.count('mon.deck_reads_failing_without_a_failure_callback')
        try:
            if with_cb:
                decks[0].read(4, 8, lambda a, d: fails.append(('ok', a)), lambda a: fails.append(('failed', a)))
            else:
                decks[0].read(4, 8, lambda a, d: fails.append(('ok', a)))
                fails.append(('failed', 4))          # (nobody to tell)
            h.pump()
            after = []
            decks[1].read(0, 4, lambda a, d: after.append(bytes(d)))
            h.pump()
        except Exception as e:  # noqa
            fails.append(('raised', repr(e)))
            after = []
        if fails != [('failed', 4)] or after != [bytes(h.image[bases[1]:bases[1] + 4])] or \
                mgr._read_complete_cb is not None or mgr._write_complete_cb is not None:
            ctx.violate('mem:deck:pending-record-left-behind-or-request-not-served', {'failed_read': fails, 'next_read': [a.hex() for a in after]})


def run_tester(desc, ctx):
    """The memory tester element end to end over the real memory subsystem: write_data(start, size) leaves exactly the
    test pattern (address modulo 256) in the addressed range and nothing else changed, one completion per request;
    read_data validates exactly the bytes of its range."""
    from vf import detsched as ds, simlink
    from cflib.crazyflie import Crazyflie
    rnd = random.Random(desc['seed'])
    size = 0x1000
    img = bytearray((i & 0xFF) for i in range(size))
    corrupt = sorted(rnd.sample(range(size), rnd.randint(0, 3)))
    for a in corrupt:
        img[a] ^= 0x5A
    wsize = 0x800
    mems = [{'type': 0x15, 'size': size, 'len': size, 'origin': 0, 'data': bytes(img).hex()},
            {'type': 0x15, 'size': wsize, 'len': wsize, 'origin': 0, 'data': (b'\xEE' * wsize).hex()}]
    prof = gen.profile(desc['seed'], 1, 1, proto=10, mems=mems)
    dev = simcf.SimCF(prof)
    spec = simlink.LinkSpec(dev, latency=0.001)
    uri = 'sim://c06t'
    simlink.SIMS[uri] = spec
    ops = []
    for _ in range(desc['n']):
        if rnd.random() < 0.5:
            start = rnd.choice((0, rnd.randrange(size - 1), rnd.randrange(256)))
            if corrupt and rnd.random() < 0.4:
                start = max(0, rnd.choice(corrupt) - rnd.randint(0, 40))
            ops.append(('r', start, rnd.randint(1, min(300, size - start))))
        else:
            start = rnd.choice((0, rnd.randrange(wsize - 1), rnd.randrange(300), 0x18, 200, 100))
            ln = rnd.choice((rnd.randint(1, 700), 255, 256, 257, 100, 25, 26))
            ops.append(('w', start, max(1, min(ln, wsize - start))))
    ob = {'results': [], 'problems': []}

    def fn(s):
        dev.now = lambda: s.now
        cf = Crazyflie()
        done = ds.Event()
        cf.connected.add_callback(lambda u: done.set())
        cf.connection_failed.add_callback(lambda *a: done.set())
        cf.open_link(uri)
        from cflib.crazyflie.mem import MemoryElement
        if not done.wait(300.0) or len(cf.mem.get_mems(MemoryElement.TYPE_MEMORY_TESTER)) != 2:
            ob['problems'].append('connect failed or tester memories not found')
            return
        s.sleep(0.3)
        rt, wt = cf.mem.get_mems(MemoryElement.TYPE_MEMORY_TESTER)
        for (k, start, ln) in ops:
            ev = ds.Event()
            calls = []
            if k == 'r':
                before = rt.readValidationSucess
                rt.read_data(start, ln, lambda m: (calls.append(('r',)), ev.set()))
                ok = ev.wait(60.0)
                s.sleep(0.05)
                ob['results'].append(('r', start, ln, ok, len(calls), before, rt.readValidationSucess, None))
            else:
                before = bytes(dev.mems[1]['data'])
                wt.write_data(start, ln, lambda m, a: (calls.append(('w', a)), ev.set()))
                ok = ev.wait(60.0)
                s.sleep(0.05)
                ob['results'].append(('w', start, ln, ok, len(calls), before, bytes(dev.mems[1]['data']), [c[1] for c in calls]))
        cf.close_link()
    _, abort, sch = harness.sched_case(fn, seed=desc['seed'], policy=('rtb', 'random')[desc['seed'] % 2], horizon=5000.0)
    rp = dict(desc)
    if abort is not None or ob['problems'] or sch.deaths:
        ctx.violate('mem:tester:hang-or-setup-problem', {'abort': str(abort), 'problems': ob['problems'], 'deaths': [d[1] for d in sch.deaths][:2]}, replay=rp)
        return
    valid = True
    for (k, start, ln, ok, ncalls, before, after, addrs) in ob['results']:
        ctx.evals()
        ctx.nontrivial(('tester', k, start, ln))
        if not ok or ncalls != 1:
            ctx.violate('mem:tester:%s-request-not-completed-exactly-once' % ('read' if k == 'r' else 'write'),
                        {'start': start, 'size': ln, 'completions': ncalls}, replay=rp)
            continue
        if k == 'r':
            ctx.count('mon.tester_reads')
            if any(start <= a < start + ln for a in corrupt):
                valid = False
                ctx.count('mon.tester_reads_over_a_corrupted_byte')
            if bool(after) != valid:
                ctx.violate('mem:tester:read-validation-verdict-wrong', {'start': start, 'size': ln, 'corrupted_addresses': corrupt,
                                                                        'readValidationSucess': after, 'expected': valid}, replay=rp)
                valid = bool(after)
        else:
            ctx.count('mon.tester_writes')
            if (start & 0xFF) + (ln % 256) > 256:
                ctx.count('mon.tester_writes_crossing_a_256_byte_boundary_with_a_remainder')
            want = bytearray(before)
            want[start:start + ln] = bytes((start + i) & 0xFF for i in range(ln))
            if bytes(want) != after or addrs != [start]:
                diff = [i for i in range(len(after)) if want[i] != after[i]]
                ctx.violate('mem:tester:device-memory-differs-from-the-test-pattern-over-the-written-range',
                            {'start': start, 'size': ln, 'first_differing_addresses': diff[:6], 'completion_addresses': addrs}, replay=rp)
    ctx.sample({'tester_ops': [(k, st, ln) for (k, st, ln) in ops][:6], 'corrupted_addresses_in_read_memory': corrupt})


def run_droprace(desc, ctx):
    """The application keeps asking for a memory (requests while one is pending are refused, that is documented) at the very
    moment another thread handles the loss of the link, under statement-level pre-emption focused on the request entry points
    and the disconnect handling: every request that was ACCEPTED gets exactly one notification, nothing is left behind, and
    after a reconnect the memory can be read again."""
    from vf import detsched as ds, simlink
    from cflib.crazyflie import Crazyflie
    from cflib.crazyflie.mem import MemoryElement
    import threading
    rnd = random.Random(desc['seed'])
    size = 0x100
    mems = [{'type': 0x15, 'size': size, 'len': size, 'origin': 0, 'data': bytes(range(256)).hex()}]
    prof = gen.profile(desc['seed'], 1, 1, proto=10, mems=mems)
    dev = simcf.SimCF(prof)
    spec = simlink.LinkSpec(dev, latency=0.05)          # answers take a while: a request stays pending over many statements
    spec.fail_reporter = 'driver'
    uri = 'sim://c06r'
    simlink.SIMS[uri] = spec
    spins = rnd.randint(1, 40)
    use_write = desc['seed'] % 3 == 0
    ob = {'problems': [], 'accepted': 0, 'refused': 0, 'notes': []}

    def fn(s):
        dev.now = lambda: s.now
        cf = Crazyflie()
        done = ds.Event()
        cf.connected.add_callback(lambda u: done.set())
        cf.connection_failed.add_callback(lambda *a: done.set())
        cf.open_link(uri)
        if not done.wait(300.0) or len(cf.mem.get_mems(MemoryElement.TYPE_MEMORY_TESTER)) != 1:
            ob['problems'].append('connect failed or memory not found')
            return
        s.sleep(0.3)
        mem = cf.mem.get_mems(MemoryElement.TYPE_MEMORY_TESTER)[0]
        notes = ob['notes']
        cf.mem.mem_read_cb.add_callback(lambda m, a, d: notes.append(('read_ok', a)))
        cf.mem.mem_read_failed_cb.add_callback(lambda m, a, d: notes.append(('read_fail', a)))
        cf.mem.mem_write_cb.add_callback(lambda m, a: notes.append(('write_ok', a)))
        cf.mem.mem_write_failed_cb.add_callback(lambda m, a: notes.append(('write_fail', a)))
        stop = {'on': False}
        link1 = cf.link

        def user():
            import time as _t
            n = 0
            while not stop['on'] and n < 400:
                n += 1
                if use_write and n % 2 == 0:
                    r = cf.mem.write(mem, 8, b'\x01\x02\x03')
                    kind = 'write'
                else:
                    r = cf.mem.read(mem, 0, 4)
                    kind = 'read'
                if r is not False:
                    ob['accepted'] += 1
                    ob.setdefault('accepted_kinds', []).append(kind)
                else:
                    ob['refused'] += 1
                _t.sleep(0)

        def breaker():
            import time as _t
            for _ in range(spins):
                _t.sleep(0)
            link1._fault()
        tu, tb = threading.Thread(target=user), threading.Thread(target=breaker)
        s.pct_rearm(depth=rnd.choice((1, 2)), window=rnd.choice((600, 2500, 5000)))
        tu.start()
        tb.start()
        tb.join()
        for _ in range(5):
            import time as _t
            _t.sleep(0)
        s.sleep(0.0005)
        stop['on'] = True
        tu.join()
        s.sleep(1.0)
        ob['state'] = {'reads': dict(cf.mem._read_requests), 'writes': {i: len(v) for i, v in cf.mem._write_requests.items() if v},
                       'link_none': cf.link is None}
        ob['n_notes'] = len(notes)
        # reconnect: the memory can be read again
        done.clear()
        cf.open_link(uri)
        if not done.wait(300.0):
            ob['problems'].append('reconnect failed')
            return
        s.sleep(0.3)
        m2 = cf.mem.get_mems(MemoryElement.TYPE_MEMORY_TESTER)
        got = []
        cf.mem.mem_read_cb.add_callback(lambda m, a, d: got.append(bytes(d)))
        ob['second_accept'] = bool(m2) and cf.mem.read(m2[0], 0, 4) is not False
        s.sleep(1.0)
        ob['second_data'] = got[-1:] if got else []
        cf.close_link()
    # two schedules in three are PCT schedules (a thread keeps running until one of a few priority-change points demotes it -
    # here drawn among the steps of the phase in which the link is lost); every statement of the focus functions is a step
    pct = desc['seed'] % 3 != 2
    _, abort, sch = harness.sched_case(fn, seed=desc['seed'], policy='pct' if pct else 'random', line_p=0.02, horizon=3000.0, max_steps=8_000_000,
                                       line_focus=('read', 'write', '_disconnected', '_clear_state', '_link_error_cb', 'user'),
                                       line_focus_p=1.0 if pct else 0.45)
    ctx.evals()
    rp = dict(desc)
    if abort is not None or ob['problems'] or sch.deaths:
        ctx.violate('mem:droprace:hang-or-setup-problem', {'abort': str(abort), 'problems': ob['problems'], 'deaths': [d[1] for d in sch.deaths][:2]}, replay=rp)
        return
    ctx.count('mon.requests_issued_while_another_thread_handles_the_loss_of_the_link', ob['accepted'] + ob['refused'])
    ctx.count('mon.preemption_points_in_request_entry_and_disconnect_handling', sch.focus_points)
    ctx.nontrivial(('droprace', spins, ob['accepted'], ob['refused'], sch.signature()))
    info = {'accepted': ob['accepted'], 'refused': ob['refused'], 'notifications': ob['notes'][:ob['n_notes']][:8], 'state_after_the_loss': ob['state']}
    if ob['n_notes'] != ob['accepted']:
        ctx.violate('mem:droprace:accepted-requests-and-notifications-differ', info, replay=rp)
    elif ob['state']['reads'] or ob['state']['writes']:
        ctx.violate('mem:droprace:pending-record-left-behind', info, replay=rp)
    elif not ob.get('second_accept') or ob.get('second_data') != [bytes(range(4))]:
        ctx.violate('mem:droprace:memory-cannot-be-read-after-the-reconnect', dict(info, accepted_again=ob.get('second_accept'), data=[d.hex() for d in ob.get('second_data', [])]), replay=rp)


def run_dupq(desc, ctx):
    """Two writes queued back to back on one memory while every write acknowledgement arrives twice (the second copy up to
    a few milliseconds later, i.e. possibly after the next write has been started).  The two writes never share a chunk
    address (an acknowledgement only carries memory id and address, a copy for an address that is in flight again cannot
    be told from the real one by any implementation).  Judged: at the moment a write is reported done the device holds
    its data; a write the device refuses is reported failed (and never done); one completion per write; a chunk goes out
    only after the chunk before it was acknowledged."""
    from vf import detsched as ds, simlink
    from cflib.crazyflie import Crazyflie
    from cflib.crazyflie.mem import MemoryElement
    rnd = random.Random(desc['seed'])
    size = 0x1000
    mems = [{'type': 0x15, 'size': size, 'len': size, 'origin': 0, 'data': (b'\xEE' * size).hex()}]
    prof = gen.profile(desc['seed'], 1, 1, proto=10, mems=mems)
    dev = simcf.SimCF(prof)
    spec = simlink.LinkSpec(dev, latency=0.001)
    uri = 'sim://c06q'
    simlink.SIMS[uri] = spec
    drnd = random.Random(desc['seed'] ^ 0xD1)

    def pol(sp, n, h, d):
        if (h >> 4) & 0xF == 4 and h & 3 == 2 and not (len(d) > 5 and d[5] != 0):
            # (a refusal arrives once: the application may try the same address again at once, and a copy of the refusal
            # could then not be told from the answer to the new attempt by any implementation)
            return [(0.0, h, d)] + [(drnd.choice((0.0, 0.0005, 0.0015, 0.003)), h, d) for _ in range(drnd.choice((1, 1, 2)))]
        return [(0.0, h, d)]
    rounds = []
    for _ in range(desc['n']):
        def chunks(a, n):
            out = []
            while n > 0:
                out.append(a)
                a += min(25, n)
                n -= min(25, n)
            return out
        for _try in range(50):
            l1, l2 = rnd.choice((1, 10, 25, 26, rnd.randint(1, 80))), rnd.choice((1, 10, 25, 26, rnd.randint(1, 80)))
            a1, a2 = rnd.randrange(0, size - 100), rnd.randrange(0, size - 100)
            if rnd.random() < 0.6 and a2 > a1:
                a1, a2 = a2, a1       # the second write lies below the first
            if not set(chunks(a1, l1)) & set(chunks(a2, l2)) and (a1 + l1 <= a2 or a2 + l2 <= a1):
                break
        refuse2 = rnd.random() < 0.45
        # (a refused write may be tried again by the application from its failure callback: 'retry')
        rounds.append((a1, bytes(rnd.getrandbits(8) for _ in range(l1)), a2, bytes(rnd.getrandbits(8) for _ in range(l2)),
                       ('retry' if rnd.random() < 0.5 else True) if refuse2 else False))
    ob = {'problems': [], 'rounds': []}

    def fn(s):
        dev.now = lambda: s.now
        cf = Crazyflie()
        done = ds.Event()
        cf.connected.add_callback(lambda u: done.set())
        cf.connection_failed.add_callback(lambda *a: done.set())
        cf.open_link(uri)
        if not done.wait(300.0) or len(cf.mem.get_mems(MemoryElement.TYPE_MEMORY_TESTER)) != 1:
            ob['problems'].append('connect failed or memory not found')
            return
        s.sleep(0.3)
        mem = cf.mem.get_mems(MemoryElement.TYPE_MEMORY_TESTER)[0]
        comps = []
        cf.mem.mem_write_cb.add_callback(lambda m, a: comps.append(('ok', a, bytes(dev.mems[0]['data']), spec.seq)))
        retry = {'data': None}

        def on_fail(m, a):
            comps.append(('fail', a, None, spec.seq))
            if retry['data'] is not None:
                d_, retry['data'] = retry['data'], None
                cf.mem.write(m, a, d_)
        cf.mem.mem_write_failed_cb.add_callback(on_fail)
        spec.reply_policy = pol
        for (a1, d1, a2, d2, refuse2) in rounds:
            del comps[:]
            refused = {'n': 0}
            retry['data'] = d2 if refuse2 == 'retry' else None
            if refuse2:
                first2 = a2
                once = refuse2 == 'retry'
                dev.hooks['mem_status'] = lambda kind, mid, addr, k: ((refused.__setitem__('n', refused['n'] + 1) or simcf.EIO)
                                                                     if (kind == 'write' and addr == first2 and not (once and refused['n'] >= 1)) else None)
            else:
                dev.hooks.pop('mem_status', None)
            t0, e0 = len(spec.tx), len(spec.rx)
            cf.mem.write(mem, a1, d1)
            cf.mem.write(mem, a2, d2)
            g = 0
            while len(comps) < (3 if refuse2 == 'retry' else 2) and g < 4000:
                s.sleep(0.001)
                g += 1
            s.sleep(0.02)         # every copy has arrived
            ob['rounds'].append({'comps': [(c[0], c[1], c[3]) for c in comps],
                                 'held': [c[2][c[1]:c[1] + (len(d1) if c[1] == a1 else len(d2))] == (d1 if c[1] == a1 else d2) for c in comps if c[0] == 'ok'],
                                 'tx': [(t[5], t[3]) for t in spec.tx[t0:] if (t[2] >> 4) & 0xF == 4 and t[2] & 3 == 2],
                                 'rx': [(r[4], r[3]) for r in spec.rx[e0:] if (r[2] >> 4) & 0xF == 4 and r[2] & 3 == 2],
                                 'refusals': refused['n'],
                                 'left': {i: len(v) for i, v in cf.mem._write_requests.items() if v}})
        dev.hooks.pop('mem_status', None)
        spec.reply_policy = None
        cf.close_link()
    _, abort, sch = harness.sched_case(fn, seed=desc['seed'], policy=('rtb', 'random', 'pct')[desc['seed'] % 3],
                                       line_p=harness.line_p_for(desc['seed'], 5, 0.03), horizon=5000.0)
    rp = dict(desc)
    if abort is not None or ob['problems'] or sch.deaths:
        ctx.violate('mem:dupq:hang-or-setup-problem', {'abort': str(abort), 'problems': ob['problems'], 'deaths': [d[1] for d in sch.deaths][:2]}, replay=rp)
        return
    for (a1, d1, a2, d2, refuse2), r in zip(rounds, ob['rounds']):
        ctx.evals()
        ctx.nontrivial(('dupq', a1, len(d1), a2, len(d2), refuse2))
        ctx.count('mon.queued_write_pairs_with_every_acknowledgement_arriving_twice')
        if a2 < a1:
            ctx.count('mon.queued_write_pairs_with_the_second_write_below_the_first')
        info = {'first': (a1, len(d1)), 'second': (a2, len(d2)), 'device_refuses_the_second': refuse2, 'completions': [c[:2] for c in r['comps']]}
        want = [('ok', a1), ('fail' if refuse2 else 'ok', a2)] + ([('ok', a2)] if refuse2 == 'retry' else [])
        if refuse2 == 'retry':
            ctx.count('mon.refused_writes_tried_again_from_the_failure_callback')
        if [c[:2] for c in r['comps']] != want or r['left']:
            ctx.violate('mem:dupq:completions-differ-from-what-the-device-did', dict(info, expected=want, left=r['left']), replay=rp)
            continue
        if not all(r['held']):
            ctx.violate('mem:dupq:write-reported-done-before-the-device-held-the-data', info, replay=rp)
            continue
        # one chunk in flight: before chunk n+1 goes out, an acknowledgement for the address of chunk n was handed over
        evs = sorted([(t[0], 'tx', struct.unpack('<BI', t[1][:5])[1]) for t in r['tx']] + [(x[0], 'rx', struct.unpack('<BI', x[1][:5])[1]) for x in r['rx']])
        last_tx, acked = None, True
        for (_, kind, addr) in evs:
            if kind == 'tx':
                if last_tx is not None and not acked:
                    ctx.violate('mem:dupq:chunk-sent-before-the-chunk-before-it-was-acknowledged', dict(info, chunk=addr, unacknowledged=last_tx), replay=rp)
                    break
                last_tx, acked = addr, False
            elif addr == last_tx:
                acked = True
    ctx.sample({'queued_write_pairs': [(a1, len(d1), a2, len(d2), rf) for (a1, d1, a2, d2, rf) in rounds][:4]})


def run(desc, ctx):
    harness.init()
    if desc.get('part') == 'dupq':
        return run_dupq(desc, ctx)
    if desc.get('part') == 'droprace':
        return run_droprace(desc, ctx)
    if desc.get('part') == 'tester':
        return run_tester(desc, ctx)
    if desc.get('part') == 'deck':
        return run_deck(desc, ctx)
    fault = desc['fault']
    if 'only_k' in desc:
        ks = [desc['only_k']]
    elif fault in ('err', 'drop_driver', 'drop_sender'):
        cal = one_run(desc, 0, calibrate=True)
        if cal['abort'] is not None or cal['problems']:
            ctx.violate('mem:fault-free-history-failed', {'abort': str(cal['abort']), 'problems': cal['problems']})
            return
        n = len([t for t in cal['spec'].tx[cal['t0_tx']:cal['t1_tx']] if (t[2] >> 4) & 0xF == 4])
        ks = list(range(1, min(n, desc['kmax']) + 1)) or [1]
    elif fault == 'lossy':
        ks = [1, 2]
    else:
        ks = [0]
    for k in ks:
        res = one_run(desc, k)
        rp = dict(desc, only_k=k)
        ctx.evals()
        judge(desc, k, res, ctx, rp)
        spec = res['spec']
        ctx.count({'none': 'mon.plain_runs', 'dup': 'mon.duplicate_reply_runs', 'dupdelay': 'mon.duplicate_reply_runs',
                   'err': 'mon.error_status_runs', 'drop_driver': 'mon.link_drop_runs', 'drop_sender': 'mon.link_drop_runs',
                   'lossy': 'mon.lossy_runs'}[fault])
        if desc['high']:
            ctx.count('mon.high_address_runs')
        if res.get('t1_tx') is not None:
            wire = [(t[2], t[3].hex()) for t in spec.tx[res['t0_tx']:res['t1_tx']] if (t[2] >> 4) & 0xF == 4]
            if wire:
                ctx.nontrivial((core.h64(res['hist']), fault, k, core.h64(wire)))
        if k == ks[0]:
            ctx.sample({'fault': fault, 'k': k, 'memories': len(res['dev'].mems),
                        'history': [{k_: (v if k_ != 'data' else '%d bytes' % (len(v) // 2)) for k_, v in o.items()} for o in res['hist']],
                        'completions': [(c[0], c[1], c[2]) for c in res['completions']][:8],
                        'steps': res['sched'].steps})
