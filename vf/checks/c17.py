"""C17 - flight helpers always end on the ground command and track motion faithfully.

The real MotionCommander (with its _SetPointThread) and PositionHlCommander run under detsched in
virtual time on a stub Crazyflie whose commander / high_level_commander / param are recorders.
Monitors: ordered, virtually time-stamped calls; thread liveness; exceptions leaving the context.
"""
import math
import random

from vf import core, harness

PROPERTY = 'C17'
LEVEL = 'exploration'
RULE = ('program = up to 10 primitives (left/right/forward/back/up/down/move_distance, turns, circles, start_*/stop with a '
        'dwell, default changes, go_to / move for the HL commander) with random distances, velocities and angles, run as '
        'context manager or explicit take_off/land, with or without an exception raised at a random position of the body, '
        'under >= 3 schedules. Altitude stays above the landing height. distinct_nontrivial = distinct (program hash, '
        'exception position, form, observed call-sequence hash).')
ASSUMPTIONS = ['virtual time: library processing takes zero time, so setpoint instants and integrals are exact (1e-9)',
               'programs keep the commanded altitude at or above the landing height (physical flights); for the MotionCommander '
               'an altitude of exactly 0 at land() is excluded (division by zero in down(0) needs measure-zero timing on a real clock)']
REQUIRED = ['mon.mc_packets_read_by_a_radio_thread_after_they_were_queued', 'mon.hl_programs_dipping_below_the_origin', 'mon.mc_programs', 'mon.mc_exceptions_in_body', 'mon.mc_hover_setpoints', 'mon.mc_primitives_checked',
            'mon.hl_programs', 'mon.hl_goto_checked', 'mon.hl_exceptions_in_body', 'mon.quiet_after_landing',
            'mon.mc_consecutive_motions_with_same_vertical_velocity', 'mon.mc_statement_level_preemption_runs',
            'mon.mc_flights_ending_below_take_off_level', 'mon.mc_identical_velocity_commanded_again',
            'mon.mc_programs_over_the_real_commander_legacy_firmware', 'mon.mc_legacy_setpoints_with_yaw_rate',
            'mon.hl_programs_over_the_real_hl_commander', 'mon.mc_second_flights_with_the_same_object', 'mon.mc_landings_with_a_setpoint_stalled_on_the_link', 'mon.mc_flights_left_after_the_link_was_lost']
DESC_TIMEOUT = 900
PERIOD = 0.2


def cases(tier, seed):
    n = 36 if tier == 'quick' else 160
    return [{'seed': seed * 100003 + i, 'kind': 'mc', 'n': 25} for i in range(n)] + \
        [{'seed': seed * 100003 + i, 'kind': 'hl', 'n': 40} for i in range(n)]


class Rec:
    """Recorder standing in for commander / high_level_commander / param."""

    def __init__(self, log, prefix, names):
        self._log = log
        for n in names:
            setattr(self, n, self._mk(prefix + n))

    def _mk(self, name):
        def f(*a, **k):
            from vf import detsched as ds
            s = ds.CUR
            self._log.append((s.now if s else 0.0, name, tuple(a), dict(k)))
        return f


class StubCf:
    def __init__(self):
        self.log = []
        self.commander = Rec(self.log, 'cmd.', ['send_hover_setpoint', 'send_stop_setpoint', 'send_notify_setpoint_stop',
                                                  'send_setpoint', 'send_velocity_world_setpoint', 'send_position_setpoint',
                                                  'send_zdistance_setpoint'])
        self.high_level_commander = Rec(self.log, 'hl.', ['takeoff', 'land', 'stop', 'go_to', 'spiral'])
        self.param = Rec(self.log, 'param.', ['set_value'])

    def is_connected(self):
        return True


class _Platform:
    def __init__(self, ver):
        self._v = ver

    def get_protocol_version(self):
        return self._v


class WireCf:
    """Crazyflie stand-in with the real Commander and HighLevelCommander: what is logged is what a firmware of the given
    protocol version decodes from the packets that reach the link (legacy hover setpoints carry the yaw rate negated)."""

    def __init__(self, ver, queued=False):
        from cflib.crazyflie.commander import Commander
        from cflib.crazyflie.high_level_commander import HighLevelCommander
        self.log = []
        self.ver = ver
        self.queued = queued
        self._sched = None
        self.on_air = 0
        self.undecodable = []
        self.platform = _Platform(ver)
        self.commander = Commander(self)
        self.high_level_commander = HighLevelCommander(self)
        self.param = Rec(self.log, 'param.', ['set_value'])

    def is_connected(self):
        return getattr(self, 'connected_now', True)

    def send_packet(self, pk, expected_reply=(), resend=False, timeout=0.2):
        from vf import detsched as ds
        s = ds.CUR
        now = s.now if s else 0.0
        if self.queued and s is not None:
            # like the radio driver: the packet OBJECT waits in a queue and is read when the radio thread transmits it
            if self._sched is not s:
                import threading
                self._sched = s
                self._q = ds.Queue()
                q = self._q

                def radio():
                    while True:
                        t, p = q.get()
                        self.on_air += 1
                        self._decode(t, p)
                th = threading.Thread(target=radio, name='wire-radio')
                th.daemon = True
                th.start()
            self._q.put((now, pk))
            return
        self._decode(now, pk)

    def _decode(self, now, pk):
        import struct
        d = bytes(pk.data)
        ent = None
        try:
            if pk.port == 7 and pk.channel == 0:
                if d[0] == 0 and len(d) == 1:
                    ent = ('cmd.send_stop_setpoint', ())
                elif d[0] == 5 and len(d) == 17:
                    vx, vy, yaw, z = struct.unpack('<ffff', d[1:])
                    ent = ('cmd.send_hover_setpoint', (vx, vy, -yaw, z))
                elif d[0] == 10 and len(d) == 17 and self.ver >= 9:
                    ent = ('cmd.send_hover_setpoint', struct.unpack('<ffff', d[1:]))
            elif pk.port == 7 and pk.channel == 1:
                if d[0] == 0 and len(d) == 5:
                    ent = ('cmd.send_notify_setpoint_stop', ())
            elif pk.port == 8 and pk.channel == 0:
                if d[0] == 7 and len(d) == 15:
                    _, grp, h, yaw, cur, dur = struct.unpack('<BBff?f', d)
                    if grp == 0 and yaw == 0.0 and not cur:
                        ent = ('hl.takeoff', (h, dur))
                elif d[0] == 8 and len(d) == 15:
                    _, grp, h, yaw, cur, dur = struct.unpack('<BBff?f', d)
                    if grp == 0 and yaw == 0.0 and not cur:
                        ent = ('hl.land', (h, dur))
                elif d[0] == 3 and len(d) == 2 and d[1] == 0:
                    ent = ('hl.stop', ())
                elif d[0] == 4 and len(d) == 23:
                    _, grp, rel, x, y, z, yaw, dur = struct.unpack('<BBBfffff', d)
                    if grp == 0 and not rel:
                        ent = ('hl.go_to', (x, y, z, yaw, dur))
                elif d[0] == 12 and len(d) == 24 and self.ver >= 8:
                    _, grp, rel, lin, x, y, z, yaw, dur = struct.unpack('<BBBBfffff', d)
                    if grp == 0 and not rel and not lin:
                        ent = ('hl.go_to', (x, y, z, yaw, dur))
        except Exception:  # noqa
            ent = None
        if ent is None:
            self.undecodable.append((now, pk.port, pk.channel, d.hex()))
        else:
            self.log.append((now, ent[0], tuple(ent[1]), {}))


class Boom(Exception):
    pass


# ------------------------------------------------------------------------------------------ MotionCommander
def gen_mc_program(rnd):
    prog = []
    z = 0.0
    h0 = rnd.choice((0.3, 0.5, 1.0, rnd.uniform(0.2, 1.5)))
    z = h0
    for _ in range(rnd.randint(0, 10)):
        k = rnd.choice(('left', 'right', 'forward', 'back', 'up', 'down', 'move', 'turn_left', 'turn_right', 'circle_left',
                        'circle_right', 'start', 'start_turn', 'start_circle', 'start_chain'))
        v = rnd.choice((0.2, 0.5, 1.0, rnd.uniform(0.05, 2.0)))
        d = rnd.choice((0.1, 0.5, 1.0, rnd.uniform(0.01, 3.0)))
        if k == 'up':
            z += d
        if k == 'down':
            d = min(d, z - 0.1)
            if d <= 0.01:
                continue
            z -= d
        if k == 'move':
            dz = rnd.uniform(-min(0.5, z - 0.1), 0.5)
            vec = (rnd.uniform(-1, 1), rnd.uniform(-1, 1), dz)
            if math.sqrt(sum(x * x for x in vec)) < 1e-3:
                continue
            z += dz
            prog.append((k, vec, v))
        elif k in ('turn_left', 'turn_right'):
            prog.append((k, rnd.choice((90.0, 45.0, 360.0, rnd.uniform(1, 400))), rnd.choice((72.0, 30.0, rnd.uniform(5, 200)))))
        elif k in ('circle_left', 'circle_right'):
            prog.append((k, rnd.uniform(0.1, 1.5), v, rnd.choice((360.0, 90.0, rnd.uniform(5, 720)))))
        elif k == 'start':
            vz = rnd.uniform(-0.3, 0.3)
            dwell = rnd.choice((0.05, 0.3, 1.0, rnd.uniform(0.01, 2.0)))
            if z + vz * dwell < 0.1:
                vz = 0.0
            z += vz * dwell
            prog.append((k, (rnd.uniform(-1, 1), rnd.uniform(-1, 1), vz, rnd.choice((0.0, rnd.uniform(-90, 90)))), dwell))
        elif k == 'start_chain':
            # several non-blocking motions in a row without stop() in between (an application steering while it
            # climbs): the vertical velocity is often exactly the one already in progress
            chain = []
            vz = rnd.choice((0.0, rnd.uniform(-0.3, 0.3), rnd.uniform(0.05, 0.3)))
            for _j in range(rnd.randint(2, 4)):
                if rnd.random() < 0.4:
                    vz = rnd.uniform(-0.3, 0.3)
                dwell = rnd.choice((0.05, 0.3, 1.0, rnd.uniform(0.01, 2.0)))
                if z + vz * dwell < 0.1:
                    vz = 0.0
                z += vz * dwell
                if chain and rnd.random() < 0.3 and chain[-1][0][2] == vz:
                    # a control loop re-sending exactly the velocity that is already in effect
                    chain.append((chain[-1][0], dwell))
                else:
                    chain.append(((rnd.uniform(-1, 1), rnd.uniform(-1, 1), vz, rnd.choice((0.0, rnd.uniform(-90, 90)))), dwell))
            prog.append((k, chain))
        elif k == 'start_turn':
            prog.append((k, rnd.choice((1, -1)) * rnd.uniform(5, 200), rnd.uniform(0.01, 2.0)))
        elif k == 'start_circle':
            prog.append((k, rnd.choice(('left', 'right')), rnd.uniform(0.1, 1.5), v, rnd.uniform(0.01, 2.0)))
        else:
            prog.append((k, d, v))
    if rnd.random() < 0.15:
        # took off from a table, lands on the floor: the flight ends below the take-off level
        # (non-round distance and velocity: the streamed height must not pass through exactly 0.0 at a streaming
        # instant - land() descends by the last streamed height and a height of exactly zero is outside the envelope)
        d = z + rnd.uniform(0.05, 0.6)
        prog.append(('down', d, rnd.uniform(0.2, 0.5)))
        z -= d
    return h0, prog


def _ends_below(h0, prog):
    z = h0
    for p in prog:
        if p[0] == 'up':
            z += p[1]
        elif p[0] == 'down':
            z -= p[1]
        elif p[0] == 'move':
            z += p[1][2]
        elif p[0] == 'start':
            z += p[1][2] * p[2]
        elif p[0] == 'start_chain':
            z += sum(v[2] * dw for v, dw in p[1])
    return z < 0


def run_mc(desc, ctx):
    harness.init()
    from vf import detsched as ds
    from cflib.positioning.motion_commander import MotionCommander
    rnd = random.Random(desc['seed'])
    wrnd = random.Random(desc['seed'] * 7919 + 13)
    for it in range(desc['n']):
        h0, prog = gen_mc_program(rnd)
        boom_at = rnd.choice((None, None, rnd.randint(0, len(prog))))
        form = rnd.choice(('with', 'explicit'))
        tk_v = rnd.choice((0.2, 0.5, rnd.uniform(0.1, 1.0)))
        # every other program flies over the real Commander, against a firmware of some protocol version
        wire = wrnd.choice((None, None, None, None, None, 10, 9, 8, 7, 5))
        cf = StubCf() if wire is None else WireCf(wire, queued=wrnd.random() < 0.5)
        E9 = 1e-9 if wire is None else 2e-6
        E7 = 1e-7 if wire is None else 2e-5
        ob = {'segments': [], 'escaped': None, 'thread': None, 't_land_done': None}

        def seg(s, vel, dur):
            ob['segments'].append((s.now, s.now + dur, vel))

        def body(s, mc):
            for i, p in enumerate(prog):
                if boom_at == i:
                    raise Boom()
                k = p[0]
                if k in ('left', 'right', 'forward', 'back', 'up', 'down'):
                    d, v = p[1], p[2]
                    vec = {'left': (0, v, 0), 'right': (0, -v, 0), 'forward': (v, 0, 0), 'back': (-v, 0, 0), 'up': (0, 0, v),
                           'down': (0, 0, -v)}[k]
                    seg(s, vec + (0.0,), d / v)
                    ob.setdefault('prims', []).append((k, d, v, len(ob['segments']) - 1))
                    getattr(mc, k)(d, v)
                elif k == 'move':
                    vec, v = p[1], p[2]
                    dist = math.sqrt(sum(x * x for x in vec))
                    seg(s, tuple(v * x / dist for x in vec) + (0.0,), dist / v)
                    ob.setdefault('prims', []).append((k, vec, v, len(ob['segments']) - 1))
                    mc.move_distance(vec[0], vec[1], vec[2], v)
                elif k in ('turn_left', 'turn_right'):
                    ang, rate = p[1], p[2]
                    seg(s, (0.0, 0.0, 0.0, rate if k == 'turn_left' else -rate), ang / rate)
                    ob.setdefault('prims', []).append((k, ang, rate, len(ob['segments']) - 1))
                    getattr(mc, k)(ang, rate)
                elif k in ('circle_left', 'circle_right'):
                    r, v, ang = p[1], p[2], p[3]
                    rate = 360.0 * v / (2 * r * math.pi)
                    seg(s, (v, 0.0, 0.0, rate if k == 'circle_left' else -rate), (2 * r * math.pi * ang / 360.0) / v)
                    ob.setdefault('prims', []).append((k, (r, ang), v, len(ob['segments']) - 1))
                    getattr(mc, k)(r, v, ang)
                elif k == 'start':
                    vel, dwell = p[1], p[2]
                    seg(s, vel, dwell)
                    mc.start_linear_motion(vel[0], vel[1], vel[2], vel[3])
                    s.sleep(dwell)
                    mc.stop()
                elif k == 'start_chain':
                    prev_vz = None
                    prev_vel = None
                    for (vel, dwell) in p[1]:
                        if prev_vel == vel:
                            ob['same_vel'] = ob.get('same_vel', 0) + 1
                        prev_vel = vel
                        seg(s, vel, dwell)
                        if prev_vz is not None and prev_vz == vel[2] and vel[2] != 0.0:
                            ob['same_vz'] = ob.get('same_vz', 0) + 1
                        prev_vz = vel[2]
                        mc.start_linear_motion(vel[0], vel[1], vel[2], vel[3])
                        s.sleep(dwell)
                    mc.stop()
                elif k == 'start_turn':
                    rate, dwell = p[1], p[2]
                    seg(s, (0.0, 0.0, 0.0, rate), dwell)
                    (mc.start_turn_left(rate) if rate > 0 else mc.start_turn_right(-rate))
                    s.sleep(dwell)
                    mc.stop()
                elif k == 'start_circle':
                    side, r, v, dwell = p[1], p[2], p[3], p[4]
                    rate = 360.0 * v / (2 * r * math.pi)
                    seg(s, (v, 0.0, 0.0, rate if side == 'left' else -rate), dwell)
                    (mc.start_circle_left if side == 'left' else mc.start_circle_right)(r, v)
                    s.sleep(dwell)
                    mc.stop()
            if boom_at == len(prog):
                raise Boom()

        second_flight = it % 4 == 1

        def fn(s):
            mc = MotionCommander(cf, default_height=h0)
            try:
                if form == 'with':
                    # take-off: estimator reset (0.1 + 2 s) then up(default_height, 0.2)
                    ob['takeoff'] = (s.now + 2.1, h0, 0.2)
                    ob['segments'].append((s.now + 2.1, s.now + 2.1 + h0 / 0.2, (0.0, 0.0, 0.2, 0.0)))
                    with mc:
                        ob['thread'] = mc._thread
                        body(s, mc)
                else:
                    ob['takeoff'] = (s.now + 2.1, h0, tk_v)
                    ob['segments'].append((s.now + 2.1, s.now + 2.1 + h0 / tk_v, (0.0, 0.0, tk_v, 0.0)))
                    mc.take_off(h0, tk_v)
                    ob['thread'] = mc._thread
                    try:
                        body(s, mc)
                    finally:
                        mc.land(rnd.choice((0.2, 0.5)))
            except Boom:
                ob['boom'] = True
            except Exception as e:  # noqa
                ob['escaped'] = repr(e)[:200]
            ob['t_land_done'] = s.now
            s.sleep(5.0)
            ob['alive'] = ob['thread'].is_alive() if ob['thread'] is not None else None
            if second_flight:
                # the same MotionCommander object flies again (second `with`, or take_off()/land() again)
                ob['f2_mark'] = len(cf.log)
                ob['f2_t0'] = s.now
                d2, v2 = 0.3 + (it % 5) * 0.17, 0.3 + (it % 3) * 0.2
                # in some second flights the link stalls (full queue, held send lock) on one hover setpoint while the
                # helper is landing: that setpoint takes two seconds to go out
                stall = {'armed': False, 'done': False}
                ob['f2_stalled'] = it % 8 == 5
                ob['f2_link_lost'] = it % 8 == 1
                real_send = cf.commander.send_hover_setpoint

                def slow_send(*a, **k):
                    if stall['armed'] and not stall['done']:
                        stall['done'] = True
                        ds.v_sleep(2.0)
                    return real_send(*a, **k)
                if ob['f2_stalled']:
                    cf.commander.send_hover_setpoint = slow_send
                try:
                    if form == 'with':
                        with mc:
                            ob['f2_thread'] = mc._thread
                            mc.forward(d2, v2)
                            stall['armed'] = True
                            if ob['f2_link_lost']:
                                cf.connected_now = False      # the link is lost in flight: the helper still ends the flight
                    else:
                        mc.take_off(h0, tk_v)
                        ob['f2_thread'] = mc._thread
                        mc.forward(d2, v2)
                        stall['armed'] = True
                        if ob['f2_link_lost']:
                            cf.connected_now = False
                        mc.land()
                except Exception as e:  # noqa
                    ob['f2_error'] = repr(e)[:200]
                if ob['f2_stalled']:
                    cf.commander.send_hover_setpoint = real_send
                cf.connected_now = True
                ob['f2_t1'] = s.now
                ob['f2_min_duration'] = h0 / (0.2 if form == 'with' else tk_v) + d2 / v2
                s.sleep(3.0)
                ob['f2_alive'] = ob['f2_thread'].is_alive() if ob.get('f2_thread') is not None else None
        # the last two runs pre-empt at statement level (sys.monitoring LINE events): the setpoint thread can be
        # suspended between any two statements while the commanding thread lands
        for pol in ('rtb', 'random', 'pct', 'line', 'line2'):
            cf.log.clear()
            if wire is not None:
                del cf.undecodable[:]
            ob.update({'segments': [], 'escaped': None, 'thread': None, 'prims': [], 'f2_mark': None, 'f2_error': None, 'f2_thread': None})
            ob.pop('boom', None)
            if pol.startswith('line'):
                _, abort, sch = harness.sched_case(fn, seed=desc['seed'] * 31 + it + (7 if pol == 'line2' else 0), policy='random',
                                                   line_p=0.3 if pol == 'line' else 0.08, horizon=5000.0)
                ctx.count('mon.mc_statement_level_preemption_runs')
                ctx.count('mon.mc_line_points', sch.line_points)
            else:
                _, abort, sch = harness.sched_case(fn, seed=desc['seed'] * 31 + it, policy=pol, horizon=5000.0)
            ctx.evals()
            ctx.count('mon.mc_programs')
            if prog and prog[-1][0] == 'down' and (boom_at is None) and sum(1 for _ in prog) and _ends_below(h0, prog):
                ctx.count('mon.mc_flights_ending_below_take_off_level')
            ctx.count('mon.mc_consecutive_motions_with_same_vertical_velocity', ob.pop('same_vz', 0))
            ctx.count('mon.mc_identical_velocity_commanded_again', ob.pop('same_vel', 0))
            info = {'program': core.jsonable(prog)[:8], 'default_height': h0, 'exception_before_primitive': boom_at, 'form': form,
                    'schedule': pol, 'real_commander_firmware_protocol_version': wire}
            rp = {'seed': desc['seed'], 'kind': 'mc', 'n': it + 1}
            if wire is not None:
                ctx.count('mon.mc_programs_over_the_real_commander')
                if cf.queued:
                    ctx.count('mon.mc_packets_read_by_a_radio_thread_after_they_were_queued', cf.on_air)
                    cf.on_air = 0
                if wire <= 8:
                    ctx.count('mon.mc_programs_over_the_real_commander_legacy_firmware')
                    ctx.count('mon.mc_legacy_setpoints_with_yaw_rate', sum(1 for c in cf.log if c[1] == 'cmd.send_hover_setpoint' and c[2][2] != 0.0))
                if cf.undecodable:
                    ctx.violate('mc:wire:packet-the-firmware-cannot-decode', dict(info, packets=cf.undecodable[:3]), replay=rp)
                    break
            if abort is not None:
                ctx.violate('mc:hang:%s' % type(abort).__name__, dict(info, abort=str(abort), threads=abort.table), replay=rp)
                break
            if sch.deaths:
                ctx.violate('mc:thread-died:%s' % sch.deaths[0][1].split('(')[0], dict(info, traceback=sch.deaths[0][2]), replay=rp)
                break
            if ob['escaped']:
                ctx.violate('mc:exception-escaped-from-helper', dict(info, error=ob['escaped']), replay=rp)
                break
            if boom_at is not None:
                ctx.count('mon.mc_exceptions_in_body')
                if not ob.get('boom'):
                    ctx.violate('mc:exception-raised-in-body-was-swallowed', info, replay=rp)
            calls = [c for c in cf.log[:(ob.get('f2_mark') if second_flight and ob.get('f2_mark') is not None else len(cf.log))] if c[1].startswith('cmd.')]
            names = [c[1] for c in calls]
            # ---- ends on the ground command, nothing afterwards
            ctx.count('mon.quiet_after_landing')
            if names[-2:] != ['cmd.send_stop_setpoint', 'cmd.send_notify_setpoint_stop']:
                ctx.violate('mc:does-not-end-with-stop-then-notify', dict(info, last_calls=names[-4:]), replay=rp)
                break
            if any(c[0] > ob['t_land_done'] + 1e-9 for c in calls):
                ctx.violate('mc:setpoints-streamed-after-landing', dict(info, late=[c[1] for c in calls if c[0] > ob['t_land_done']][:3]), replay=rp)
                break
            if ob['alive']:
                ctx.violate('mc:setpoint-thread-still-alive-after-landing', info, replay=rp)
                break
            # ---- hover stream: cadence, velocity timeline, height integral
            hov = [c for c in calls if c[1] == 'cmd.send_hover_setpoint']
            ctx.count('mon.mc_hover_setpoints', len(hov))
            # the landing segment: down(height, velocity) issued at land time; reconstruct from the stream itself is
            # circular, so take it from the last commanded altitude of the reference
            segs = sorted(ob['segments'])

            def vel_at(t):
                cands = []
                for (a, b, v) in segs:
                    if a - 1e-9 <= t < b - 1e-9:
                        cands.append(v)
                    if abs(t - a) <= 1e-9 or abs(t - b) <= 1e-9:
                        cands.append(v)
                        cands.append((0.0, 0.0, 0.0, 0.0))
                return cands or [(0.0, 0.0, 0.0, 0.0)]

            def z_at(t):
                z = 0.0
                for (a, b, v) in segs:
                    if t > a:
                        z += v[2] * (min(t, b) - a)
                return z
            t_body_end = max([b for (a, b, v) in segs] + [0.0])
            bad = None
            prev_t = None
            for c in hov:
                t, (vx, vy, yaw, z) = c[0], c[2]
                if prev_t is not None and t - prev_t > PERIOD + 1e-9:
                    bad = ('mc:hover-setpoints-more-than-one-period-apart', {'gap': t - prev_t, 'at': t})
                    break
                prev_t = t
                if t <= t_body_end + 1e-9:
                    ok = any(abs(vx - v[0]) < E9 * max(1, abs(v[0])) and abs(vy - v[1]) < E9 * max(1, abs(v[1])) and abs(yaw - v[3]) < E9 * max(1, abs(v[3])) for v in vel_at(t))
                    if not ok:
                        bad = ('mc:hover-setpoint-velocity-differs-from-commanded', {'at': t, 'got': (vx, vy, yaw), 'expected_any_of': vel_at(t)[:3]})
                        break
                    if abs(z - z_at(t)) > E9 * max(1.0, abs(z)):
                        bad = ('mc:hover-height-does-not-integrate-vertical-velocity', {'at': t, 'z': z, 'reference': z_at(t)})
                        break
            if bad:
                ctx.violate(bad[0], dict(info, **bad[1]), replay=rp)
                break
            # ---- each blocking primitive: commanded velocity x duration == requested displacement
            for (k, a, v, si) in ob.get('prims', []):
                (t0, t1, vel) = ob['segments'][si]
                mine = [c for c in hov if t0 - 1e-9 <= c[0] <= t1 + 1e-9]
                if not mine:
                    continue
                ctx.count('mon.mc_primitives_checked')
                # integrate the streamed velocity over [t0, t1]: piecewise constant between setpoints
                disp = [0.0, 0.0, 0.0, 0.0]
                pts = [(c[0], c[2]) for c in hov if c[0] >= t0 - 1e-9]
                cur = None
                last_t = t0
                for (t, sp) in pts:
                    tt = min(t, t1)
                    if cur is not None:
                        for j, idx in ((0, 0), (1, 1), (3, 2)):
                            disp[j] += cur[idx] * (tt - last_t)
                    last_t = tt
                    cur = sp
                    if t >= t1:
                        break
                z0 = [c for c in hov if abs(c[0] - t0) <= 1e-9]
                z1 = [c for c in hov if abs(c[0] - t1) <= 1e-9]
                if z0 and z1:
                    disp[2] = z1[-1][2][3] - z0[-1][2][3]
                if k in ('left', 'right', 'forward', 'back', 'up', 'down'):
                    want = {'left': (0, a, 0, 0), 'right': (0, -a, 0, 0), 'forward': (a, 0, 0, 0), 'back': (-a, 0, 0, 0),
                            'up': (0, 0, a, 0), 'down': (0, 0, -a, 0)}[k]
                elif k == 'move':
                    want = (a[0], a[1], a[2], 0)
                elif k in ('turn_left', 'turn_right'):
                    want = (0, 0, 0, a if k == 'turn_left' else -a)
                else:
                    r, ang = a
                    want = (2 * r * math.pi * ang / 360.0, 0, 0, ang if k == 'circle_left' else -ang)
                if any(abs(d - w) > E7 * max(1.0, abs(w)) for d, w in zip(disp, want)):
                    ctx.violate('mc:primitive-%s-commanded-displacement-differs' % k,
                                dict(info, primitive=(k, a, v), commanded=disp, requested=want), replay=rp)
                    break
            if second_flight:
                ctx.count('mon.mc_second_flights_with_the_same_object')
                if ob.get('f2_stalled'):
                    ctx.count('mon.mc_landings_with_a_setpoint_stalled_on_the_link')
                if ob.get('f2_link_lost'):
                    ctx.count('mon.mc_flights_left_after_the_link_was_lost')
                c2 = [c for c in cf.log[ob.get('f2_mark', len(cf.log)):] if c[1].startswith('cmd.')]
                h2 = [c for c in c2 if c[1] == 'cmd.send_hover_setpoint']
                gaps = [b[0] - a[0] for a, b in zip(h2, h2[1:])]
                prob = None
                if ob.get('f2_error'):
                    prob = ('mc:second-flight-with-the-same-object-raised', {'error': ob['f2_error']})
                elif [c[1] for c in c2][-2:] != ['cmd.send_stop_setpoint', 'cmd.send_notify_setpoint_stop']:
                    prob = ('mc:second-flight:does-not-end-with-stop-then-notify', {'last_calls': [c[1] for c in c2][-4:]})
                elif not ob.get('f2_stalled') and (len(h2) < ob['f2_min_duration'] / PERIOD - 1 or (gaps and max(gaps) > PERIOD + 1e-9)):
                    prob = ('mc:second-flight:hover-setpoints-not-streamed-every-period',
                            {'hover_setpoints': len(h2), 'flight_lasts_at_least_s': ob['f2_min_duration'], 'largest_gap': max(gaps) if gaps else None})
                elif any(c[0] > ob['f2_t1'] + 1e-9 for c in c2) or ob.get('f2_alive'):
                    prob = ('mc:second-flight:setpoints-or-thread-after-landing', {'alive': ob.get('f2_alive')})
                if prob:
                    ctx.violate(prob[0], dict(info, **prob[1]), replay=rp)
                    break
            ctx.nontrivial((core.h64(core.jsonable(prog)), boom_at, form, core.h64([(round(c[0], 9), c[1]) for c in calls])))
        if it == 0:
            ctx.sample({'program': core.jsonable(prog)[:5], 'form': form, 'exception_before_primitive': boom_at,
                        'last_calls': [c[1] for c in cf.log if c[1].startswith('cmd.')][-3:],
                        'hover_setpoints': sum(1 for c in cf.log if c[1] == 'cmd.send_hover_setpoint')})


# ------------------------------------------------------------------------------------------ PositionHlCommander
def run_hl(desc, ctx):
    harness.init()
    from cflib.positioning.position_hl_commander import PositionHlCommander
    rnd = random.Random(desc['seed'])
    wrnd = random.Random(desc['seed'] * 7919 + 17)
    for it in range(desc['n']):
        x0, y0, z0 = rnd.uniform(-2, 2), rnd.uniform(-2, 2), rnd.choice((0.0, 0.0, rnd.uniform(0, 0.5)))
        dv, dh = rnd.choice((0.5, 0.2, rnd.uniform(0.1, 2))), rnd.choice((0.5, 1.0, rnd.uniform(0.3, 2)))
        lh = rnd.choice((0.0, 0.0, min(z0, 0.2)))
        ctrl = rnd.choice((None, 1, 2))
        prog = []
        z = dh          # altitude after take-off
        gh = dh         # current default height (go_to without z)
        for _ in range(rnd.randint(0, 10)):
            k = rnd.choice(('left', 'right', 'forward', 'back', 'up', 'down', 'move', 'go_to', 'go_to_xy', 'same', 'set_v', 'set_h'))
            v = rnd.choice((None, None, 0.3, rnd.uniform(0.1, 2)))
            d = rnd.choice((0.5, 1.0, rnd.uniform(0.01, 3)))
            if k == 'down':
                if rnd.random() < 0.25 and z - lh > 0.01:
                    d = z - lh           # down to exactly the landing height (touch down before leaving the context)
                else:
                    d = min(d, z - lh - 0.05)
                if d <= 0.01:
                    continue
                z -= d
                if z < lh:
                    z = lh
            if k == 'up':
                z += d
            if k == 'move':
                dz = rnd.uniform(-min(0.5, max(0.0, z - lh - 0.05)), 0.5)
                z += dz
                prog.append((k, (rnd.uniform(-1, 1), rnd.uniform(-1, 1), dz), v))
            elif k == 'go_to':
                tz = rnd.choice((lh, rnd.uniform(lh + 0.1, 2.0), rnd.uniform(lh + 0.1, 2.0)))
                z = tz
                prog.append((k, (rnd.uniform(-2, 2), rnd.uniform(-2, 2), tz), v))
            elif k == 'go_to_xy':
                prog.append((k, (rnd.uniform(-2, 2), rnd.uniform(-2, 2)), v))
                z = gh
            elif k == 'same':
                prog.append((k,))
            elif k == 'set_v':
                prog.append((k, rnd.uniform(0.1, 2)))
            elif k == 'set_h':
                gh = rnd.uniform(lh + 0.2, 2)
                prog.append((k, gh))
            else:
                prog.append((k, d, v))
        if rnd.random() < 0.25 and z - lh > 0.01:
            # touch down before leaving the context: the last motion ends exactly on the landing height
            prog.append(('down', z - lh, None) if rnd.random() < 0.5 else ('go_to', (rnd.uniform(-1, 1), rnd.uniform(-1, 1), lh), None))
        boom_at = rnd.choice((None, None, rnd.randint(0, len(prog))))
        wire = wrnd.choice((None, None, None, None, 10, 8, 7, 5))
        drnd = random.Random(desc['seed'] * 31 + it)
        if drnd.random() < 0.25:
            # the origin of the positioning system need not be on the floor (a table top, a landing pad on a shelf): the
            # flight dips below z = 0 next to it and comes back up
            back = drnd.uniform(max(lh, 0.0) + 0.1, 2.0)
            prog = prog + [('go_to', (drnd.uniform(-2, 2), drnd.uniform(-2, 2), -drnd.uniform(0.05, 1.0)), drnd.choice((None, 0.4))),
                           ('go_to', (drnd.uniform(-2, 2), drnd.uniform(-2, 2), back), None)]
            # (an exception in the body is raised before the dip or not at all: boom_at was drawn for the program without it)
            ctx.count('mon.hl_programs_dipping_below_the_origin')
        cf = StubCf() if wire is None else WireCf(wire, queued=wrnd.random() < 0.5)
        E9 = 1e-9 if wire is None else 2e-6
        ob = {'exp': [], 'pos': None, 'escaped': None}

        def fn(s):
            pc = PositionHlCommander(cf, x=x0, y=y0, z=z0, default_velocity=dv, default_height=dh, controller=ctrl,
                                     default_landing_height=lh)
            X, Y, Z = x0, y0, z0
            cur_v, cur_h = dv, dh
            try:
                with pc:
                    Z = cur_h
                    ob['exp'].append(('hl.takeoff', (cur_h, cur_h / cur_v)))
                    for i, p in enumerate(prog):
                        if boom_at == i:
                            raise Boom()
                        k = p[0]
                        if k in ('left', 'right', 'forward', 'back', 'up', 'down'):
                            d, v = p[1], p[2]
                            dx, dy, dz = {'left': (0, d, 0), 'right': (0, -d, 0), 'forward': (d, 0, 0), 'back': (-d, 0, 0),
                                          'up': (0, 0, d), 'down': (0, 0, -d)}[k]
                            tx, ty, tz = X + dx, Y + dy, Z + dz
                            (getattr(pc, k)(d) if v is None else getattr(pc, k)(d, v))
                        elif k == 'move':
                            (dx, dy, dz), v = p[1], p[2]
                            tx, ty, tz = X + dx, Y + dy, Z + dz
                            (pc.move_distance(dx, dy, dz) if v is None else pc.move_distance(dx, dy, dz, v))
                        elif k == 'go_to':
                            (tx, ty, tz), v = p[1], p[2]
                            (pc.go_to(tx, ty, tz) if v is None else pc.go_to(tx, ty, tz, v))
                        elif k == 'go_to_xy':
                            (tx, ty), v = p[1], p[2]
                            tz = cur_h
                            (pc.go_to(tx, ty) if v is None else pc.go_to(tx, ty, velocity=v))
                        elif k == 'same':
                            tx, ty, tz, v = X, Y, Z, None
                            pc.go_to(X, Y, Z)
                        elif k == 'set_v':
                            cur_v = p[1]
                            pc.set_default_velocity(p[1])
                            continue
                        else:
                            cur_h = p[1]
                            pc.set_default_height(p[1])
                            continue
                        dist = math.sqrt((tx - X) ** 2 + (ty - Y) ** 2 + (tz - Z) ** 2)
                        if dist > 0.0:
                            ob['exp'].append(('hl.go_to', (tx, ty, tz, 0, dist / (cur_v if v is None else v))))
                            X, Y, Z = tx, ty, tz
                        got = pc.get_position()
                        if any(abs(a - b) > 1e-9 for a, b in zip(got, (X, Y, Z))):
                            ob['pos'] = (got, (X, Y, Z), i)
                    if boom_at == len(prog):
                        raise Boom()
            except Boom:
                ob['boom'] = True
            except Exception as e:  # noqa
                ob['escaped'] = repr(e)[:200]
            ob['exp'].append(('hl.land', (lh, (Z - lh) / cur_v)))
            ob['exp'].append(('hl.stop', ()))
            ob['t_done'] = s.now
            ob['final'] = pc.get_position()
            ob['final_want'] = (X, Y, lh)
            s.sleep(3.0)
        _, abort, sch = harness.sched_case(fn, seed=desc['seed'] * 17 + it, policy=rnd.choice(('rtb', 'random', 'pct')), horizon=5000.0)
        ctx.evals()
        ctx.count('mon.hl_programs')
        info = {'program': core.jsonable(prog)[:8], 'start': (x0, y0, z0), 'default_velocity': dv, 'default_height': dh,
                'landing_height': lh, 'exception_before_primitive': boom_at, 'real_hl_commander_firmware_protocol_version': wire}
        rp = {'seed': desc['seed'], 'kind': 'hl', 'n': it + 1}
        if wire is not None:
            ctx.count('mon.hl_programs_over_the_real_hl_commander')
            if cf.undecodable:
                ctx.violate('hl:wire:packet-the-firmware-cannot-decode', dict(info, packets=cf.undecodable[:3]), replay=rp)
                continue
        if abort is not None or sch.deaths:
            ctx.violate('hl:hang-or-thread-death', dict(info, abort=str(abort)), replay=rp)
            continue
        if ob['escaped']:
            ctx.violate('hl:exception-escaped-from-helper', dict(info, error=ob['escaped']), replay=rp)
            continue
        if boom_at is not None:
            ctx.count('mon.hl_exceptions_in_body')
            if not ob.get('boom'):
                ctx.violate('hl:exception-raised-in-body-was-swallowed', info, replay=rp)
        calls = [(c[1], c[2]) for c in cf.log if c[1].startswith('hl.')]
        ctx.count('mon.hl_goto_checked', sum(1 for c in calls if c[0] == 'hl.go_to'))
        ctx.count('mon.quiet_after_landing')
        if [c[0] for c in calls][-2:] != ['hl.land', 'hl.stop']:
            ctx.violate('hl:does-not-end-with-land-then-stop', dict(info, last_calls=[c[0] for c in calls][-3:]), replay=rp)
            continue
        if any(c[0] > ob['t_done'] + 1e-9 for c in cf.log if c[1].startswith('hl.')):
            ctx.violate('hl:commands-after-landing', info, replay=rp)
        ok = len(calls) == len(ob['exp'])
        mism = None
        if ok:
            for (gn, ga), (en, ea) in zip(calls, ob['exp']):
                if gn != en or len(ga) != len(ea) or any(abs(a - b) > E9 * max(1.0, abs(b)) for a, b in zip(ga, ea)):
                    ok = False
                    mism = ((gn, ga), (en, ea))
                    break
        if not ok:
            ctx.violate('hl:commands-differ-from-reference:%s' % (mism[1][0] if mism else 'count'),
                        dict(info, got=[(c[0], c[1]) for c in calls][:8], expected=ob['exp'][:8], mismatch=mism), replay=rp)
        if ob['pos'] is not None:
            ctx.violate('hl:reported-position-differs-from-sum-of-displacements', dict(info, got=ob['pos'][0], want=ob['pos'][1]), replay=rp)
        if any(abs(a - b) > 1e-9 for a, b in zip(ob['final'], ob['final_want'])):
            ctx.violate('hl:position-after-landing-wrong', dict(info, got=ob['final'], want=ob['final_want']), replay=rp)
        if ctrl is not None and ('param.set_value', ('stabilizer.controller', str(ctrl))) not in [(c[1], c[2]) for c in cf.log]:
            ctx.violate('hl:controller-not-selected', info, replay=rp)
        ctx.nontrivial((core.h64(core.jsonable(prog)), boom_at, core.h64(core.jsonable(calls))))
        if it == 0:
            ctx.sample({'program': core.jsonable(prog)[:5], 'calls': core.jsonable(calls)[:6]})


def run(desc, ctx):
    core.setup_path()
    globals()['run_' + desc['kind']](desc, ctx)
