"""C16 - system alignment is rigid and exact; scaling is uniform.

Generated systems with a known misalignment M (world -> current frame).  The real
LighthouseSystemAligner.align and LighthouseSystemScaler.scale_* run on them; monitors compare the
returned transformation / poses with the generating transform, check rigidity and properness, the
images of the reference points, uniform scaling, bit-identical rotations and untouched inputs.
"""
import copy
import math
import random

from vf import core, lhgen

PROPERTY = 'C16'
LEVEL = 'exploration'
RULE = ('case = 1..6 base stations above the floor, misalignment rotation 0..30 deg about a random axis (optionally '
        'composed with a half turn about Z and/or X: the mirror cases), translation <= 3 m, 1..3 x-axis points, 1..4 plane '
        'points, noise sigma in {0, 1, 5 mm}; scale factors 0.2..5 for both scaling modes. distinct_nontrivial = distinct '
        '(seed, flip class, noise) systems evaluated.')
ASSUMPTIONS = ['noise-free exactness tolerance 1e-4 m / 1e-4 rad (measured worst values in the evidence)',
               'with noise only rigidity, properness and a 10-sigma bound on the mapped reference points are required']
REQUIRED = ['mon.scale_factors_within_a_thousandth_of_one', 'mon.alignments_with_the_samples_in_arrays_or_tuples', 'mon.align_noise_free', 'mon.align_noisy', 'mon.align_mirror_cases', 'mon.rigidity_pairs', 'mon.scale_fixed_point', 'mon.scale_fixed_point_off_direction',
            'mon.scale_diagonals', 'mon.inputs_unchanged', 'mon.misalignment_25_to_30_deg', 'mon.scale_with_repeated_pose_objects']


def cases(tier, seed):
    n = 48 if tier == 'quick' else 400
    return [{'seed': seed * 100003 + i, 'n': 150} for i in range(n)]


def _pose_eq(a, b):
    import numpy as np
    return np.array_equal(a.rot_matrix, b.rot_matrix) and np.array_equal(a.translation, b.translation)


def run(desc, ctx):
    core.setup_path()
    import warnings
    warnings.filterwarnings('ignore')
    import numpy as np
    from cflib.localization.lighthouse_bs_vector import LighthouseBsVector, LighthouseBsVectors
    from cflib.localization.lighthouse_system_aligner import LighthouseSystemAligner
    from cflib.localization.lighthouse_system_scaler import LighthouseSystemScaler
    from cflib.localization.lighthouse_types import LhCfPoseSample, Pose
    rnd = random.Random(desc['seed'])
    worst = {'T_err': 0.0, 'origin': 0.0}
    for it in range(desc['n']):
        rm = lhgen.room(rnd.randrange(1 << 30), n_bs=rnd.randint(1, 6), n_cf=rnd.randint(1, 5))
        angle = math.radians(rnd.choice((rnd.uniform(0, 30), rnd.uniform(25, 29.99), rnd.uniform(0, 5), 0.0)))
        axis = [rnd.gauss(0, 1) for _ in range(3)]
        Rm = lhgen.rot_axis(axis, angle)
        flip = rnd.choice(('none', 'none', 'none', 'z', 'x', 'zx'))
        if 'z' in flip:
            Rm = Rm @ lhgen.rot_axis((0, 0, 1), math.pi)
        if 'x' in flip:
            Rm = Rm @ lhgen.rot_axis((1, 0, 0), math.pi)
        tm = np.array([rnd.uniform(-1, 1) for _ in range(3)])
        tm = tm / max(1e-9, np.linalg.norm(tm)) * rnd.uniform(0, 3.0)
        sigma = rnd.choice((0.0, 0.0, 0.0, 0.001, 0.005))

        def to_c(p):
            return Rm @ np.asarray(p, float) + tm

        def noisy(p):
            return to_c(p) + (np.array([rnd.gauss(0, sigma) for _ in range(3)]) if sigma else 0.0)
        origin = noisy((0, 0, 0))
        xs = [noisy((rnd.uniform(0.3, 2.0), 0, 0)) for _ in range(rnd.randint(1, 3))]
        ps = [noisy((rnd.uniform(-2, 2), rnd.uniform(0.3, 2.0) * rnd.choice((1, -1)), 0)) for _ in range(rnd.randint(1, 4))]
        bs_c = {i: Pose(Rm @ rm['bs'][i][0], to_c(rm['bs'][i][1])) for i in rm['ids']}
        snapshot = ({i: (p.rot_matrix.copy(), p.translation.copy()) for i, p in bs_c.items()}, origin.copy(),
                    [x.copy() for x in xs], [p.copy() for p in ps])
        container = ('list', 'list', 'array', 'tuple')[(desc['seed'] + it) % 4]
        if container == 'array':
            xs, ps = np.array(xs), np.array(ps)      # the samples as N x 3 arrays
            ctx.count('mon.alignments_with_the_samples_in_arrays_or_tuples')
        elif container == 'tuple':
            xs, ps = tuple(xs), tuple(ps)
            ctx.count('mon.alignments_with_the_samples_in_arrays_or_tuples')
        ctx.evals()
        ctx.nontrivial((desc['seed'], it, flip, sigma))
        if 25 <= math.degrees(angle) < 30:
            ctx.count('mon.misalignment_25_to_30_deg')
        rp = dict(desc)
        try:
            aligned, T = LighthouseSystemAligner.align(origin, xs, ps, bs_c)
        except Exception as e:  # noqa
            ctx.violate('align:raised:%s' % type(e).__name__, {'error': str(e)[:200]}, replay=rp)
            continue
        ctxd = {'misalignment_deg': math.degrees(angle), 'flip': flip, 'sigma': sigma, 'translation_m': float(np.linalg.norm(tm)),
                'n_x': len(xs), 'n_plane': len(ps), 'n_bs': len(bs_c), 'iteration': it}
        # inputs untouched
        ctx.count('mon.inputs_unchanged')
        same = all(np.array_equal(bs_c[i].rot_matrix, snapshot[0][i][0]) and np.array_equal(bs_c[i].translation, snapshot[0][i][1])
                   for i in bs_c) and np.array_equal(origin, snapshot[1]) and \
            len(xs) == len(snapshot[2]) and len(ps) == len(snapshot[3]) and \
            all(np.array_equal(a, b) for a, b in zip(xs, snapshot[2])) and all(np.array_equal(a, b) for a, b in zip(ps, snapshot[3]))
        if not same:
            ctx.violate('align:inputs-modified', ctxd, replay=rp)
        # T proper rigid
        Rt = T.rot_matrix
        if abs(np.linalg.det(Rt) - 1) > 1e-9 or np.linalg.norm(Rt.T @ Rt - np.eye(3)) > 1e-9:
            ctx.violate('align:transformation-not-a-proper-rotation', dict(ctxd, det=float(np.linalg.det(Rt))), replay=rp)
            continue
        # one transformation for all base stations: result == T o pose; distances / relative rotations preserved
        ids = list(bs_c)
        okrig = set(aligned) == set(ids)
        if okrig:
            for i in ids:
                want_t = Rt @ bs_c[i].translation + T.translation
                want_R = Rt @ bs_c[i].rot_matrix
                if np.linalg.norm(aligned[i].translation - want_t) > 1e-9 or np.linalg.norm(aligned[i].rot_matrix - want_R) > 1e-9:
                    okrig = False
            for a in range(len(ids)):
                for b in range(a + 1, len(ids)):
                    ctx.count('mon.rigidity_pairs')
                    d0 = np.linalg.norm(bs_c[ids[a]].translation - bs_c[ids[b]].translation)
                    d1 = np.linalg.norm(aligned[ids[a]].translation - aligned[ids[b]].translation)
                    r0 = bs_c[ids[a]].rot_matrix.T @ bs_c[ids[b]].rot_matrix
                    r1 = aligned[ids[a]].rot_matrix.T @ aligned[ids[b]].rot_matrix
                    if abs(d0 - d1) > 1e-9 or np.linalg.norm(r0 - r1) > 1e-9:
                        okrig = False
        if not okrig:
            ctx.violate('align:not-one-rigid-transformation-for-all-base-stations', ctxd, replay=rp)
            continue
        # images of the reference points
        o = T.rotate_translate(origin)
        xi = [T.rotate_translate(x) for x in xs]
        pi_ = [T.rotate_translate(p) for p in ps]
        first_bs_z = aligned[ids[0]].translation[2]
        tol = 1e-4 if sigma == 0 else 10 * sigma * math.sqrt(len(xs) + len(ps) + 1) + 1e-4
        errs = [float(np.linalg.norm(o))] + [float(np.linalg.norm(x[1:3])) for x in xi] + [abs(float(p[2])) for p in pi_]
        bad = max(errs) > tol or any(x[0] <= 0 for x in xi) or first_bs_z <= 0
        if sigma == 0:
            ctx.count('mon.align_noise_free')
            worst['origin'] = max(worst['origin'], max(errs))
            # equals the generating inverse transform
            Rinv, tinv = Rm.T, -Rm.T @ tm
            te = float(np.linalg.norm(T.translation - tinv))
            re = lhgen.rot_angle(Rinv.T @ Rt)
            worst['T_err'] = max(worst['T_err'], te, re)
            if te > 1e-4 or re > 1e-4:
                bad = True
            ctxd.update({'transform_translation_error': te, 'transform_rotation_error': re})
        else:
            ctx.count('mon.align_noisy')
        if flip != 'none':
            ctx.count('mon.align_mirror_cases')
        if bad:
            ctxd.update({'origin_maps_to': o.tolist(), 'x_axis_points_map_to': [x.tolist() for x in xi][:2],
                         'plane_z': [float(p[2]) for p in pi_][:3], 'first_bs_z': float(first_bs_z), 'tolerance': tol})
            cls_ = 'noise-free' if sigma == 0 else 'noisy'
            ctx.violate('align:reference-points-not-mapped-onto-axes:%s:%s' % (cls_, 'flip-' + flip), ctxd, replay=rp)
        # ------------------------------------------------------------- scaling
        cf_w = [Pose(R, t) for (R, t) in rm['cf']]
        bs_w = {i: Pose(*rm['bs'][i]) for i in rm['ids']}
        s_true = rnd.uniform(0.2, 5.0)
        if it % 4 == 3:
            # a system that is (almost) at the right scale already
            s_true = rnd.choice((1.0, 1.0 + rnd.uniform(-1e-5, 1e-5), 1.0 + rnd.uniform(-1e-3, 1e-3), 1.0 + rnd.uniform(-1e-7, 1e-7)))
            ctx.count('mon.scale_factors_within_a_thousandth_of_one')
        bs_in = {i: Pose(p.rot_matrix.copy(), p.translation / s_true) for i, p in bs_w.items()}
        cf_in = [Pose(p.rot_matrix.copy(), p.translation / s_true) for p in cf_w]
        bs_keep, cf_keep = copy.deepcopy(bs_in), copy.deepcopy(cf_in)

        def check_scaled(label, bs_out, cf_out, s, s_want, stol):
            ok = abs(s - s_want) <= stol * max(1.0, abs(s_want))
            for i in bs_in:
                if not np.array_equal(bs_out[i].rot_matrix, bs_in[i].rot_matrix) or \
                        np.linalg.norm(bs_out[i].translation - bs_in[i].translation * s) > 1e-12 * max(1, s):
                    ok = False
            for a, b in zip(cf_out, cf_in):
                if not np.array_equal(a.rot_matrix, b.rot_matrix) or np.linalg.norm(a.translation - b.translation * s) > 1e-12 * max(1, s):
                    ok = False
            if len(cf_out) != len(cf_in) or set(bs_out) != set(bs_in):
                ok = False
            unchanged = all(_pose_eq(bs_in[i], bs_keep[i]) for i in bs_in) and all(_pose_eq(a, b) for a, b in zip(cf_in, cf_keep))
            ctx.count('mon.inputs_unchanged')
            if not unchanged:
                ctx.violate('scale:%s:inputs-modified' % label, {'s': s}, replay=rp)
            if not ok:
                ctx.violate('scale:%s:not-uniform-or-wrong-factor' % label, {'factor': s, 'wanted': s_want}, replay=rp)
        # fixed point: a point known to be at `expected` in the real world is at `actual` in the estimate
        k = rnd.randrange(len(cf_w))
        if np.linalg.norm(cf_w[k].translation) > 0.05:
            ctx.count('mon.scale_fixed_point')
            out = LighthouseSystemScaler.scale_fixed_point(bs_in, cf_in, cf_w[k].translation, cf_in[k])
            check_scaled('fixed-point', out[0], out[1], out[2], s_true, 1e-9)
            # the estimate of the fixed point need not lie in the direction of its true position (residual rotation of the
            # system, measurement noise): the factor is the ratio of the distances
            Rq = lhgen.rot_axis([rnd.gauss(0, 1) for _ in range(3)], rnd.choice((math.radians(1.0), rnd.uniform(0.0, math.radians(40.0)))))
            off = Pose(cf_in[k].rot_matrix.copy(), Rq @ cf_in[k].translation)
            out = LighthouseSystemScaler.scale_fixed_point(bs_in, cf_in, cf_w[k].translation, off)
            ctx.count('mon.scale_fixed_point_off_direction')
            check_scaled('fixed-point:estimate-off-the-true-direction', out[0], out[1], out[2], s_true, 1e-9)
            # the same Pose object several times in the list (a Crazyflie standing still while samples are recorded,
            # or the reference pose appended to the list it came from)
            alias = ([cf_in[k]] * rnd.randint(2, 4)) if rnd.random() < 0.5 else (list(cf_in) + [cf_in[k]])
            out = LighthouseSystemScaler.scale_fixed_point(bs_in, alias, cf_w[k].translation, cf_in[k])
            ctx.count('mon.scale_with_repeated_pose_objects')
            oka = len(out[1]) == len(alias) and abs(out[2] - s_true) <= 1e-9 * max(1.0, s_true)
            for a, b in zip(out[1], alias):
                if not np.array_equal(a.rot_matrix, b.rot_matrix) or np.linalg.norm(a.translation - b.translation * out[2]) > 1e-12 * max(1, out[2]):
                    oka = False
            if not oka:
                ctx.violate('scale:fixed-point:not-uniform-or-wrong-factor:repeated-pose-object', {'factor': out[2], 'wanted': s_true,
                                                                                                   'poses': len(alias)}, replay=rp)
            if not all(_pose_eq(a, b) for a, b in zip(cf_in, cf_keep)):
                ctx.violate('scale:fixed-point:inputs-modified', {'s': out[2]}, replay=rp)
        # diagonals: measurements from the true geometry, system shrunk by s_true
        samples = []
        for c in rm['cf']:
            ang = {}
            for i in rm['ids']:
                dirs = lhgen.sensor_dirs(rm['bs'][i], c)
                if all(d[0] > 0.2 for d in dirs) and lhgen.facing(rm['bs'][i], c):
                    ang[i] = LighthouseBsVectors([LighthouseBsVector(math.atan2(d[1], d[0]), math.atan2(d[2], d[0])) for d in dirs])
            samples.append(LhCfPoseSample(angles_calibrated=ang))
        if any(s_.angles_calibrated for s_ in samples):
            diag = float(np.linalg.norm(lhgen.SENSORS[0] - lhgen.SENSORS[3]))
            ctx.count('mon.scale_diagonals')
            out = LighthouseSystemScaler.scale_diagonals(bs_in, cf_in, samples, diag)
            # float32 direction vectors limit the accuracy of the recomputed diagonal
            check_scaled('diagonals', out[0], out[1], out[2], s_true, 2e-4)
    ctx.sample({'systems': desc['n'], 'worst_noise_free_errors': worst})
