"""C07 - received packets reach exactly the matching callbacks, once, in order.

Pump mode (no scheduler, no extra thread): the real _IncomingPacketHandler.run() is executed in the
harness thread with a scripted link that raises a BaseException when its script is exhausted.
Instrumented callbacks log (packet uid, registration id) and execute mutation scripts (remove self /
earlier / later, add new, add-then-remove, raise) from inside the dispatch.  Oracle: an independent
matcher plus must / may / must-not sets derived from the table at the start of each dispatch.
"""

import random

from vf import core

PROPERTY = 'C07'
LEVEL = 'exploration'
RULE = ('descriptor = seeded batch of scenarios; scenario = 1..8 distinct registrations (port 0..15/0xFF, masks in '
        '{0xFF,0xF0,0x0F,0x03,0}, channel 0..3, added through add_port_callback or add_header_callback), a script of <=3 '
        'mutations executed inside callbacks, optionally one raising callback at every position, and a packet sequence '
        'covering all 256 header bytes. distinct_nontrivial = distinct (registration table, script, header) triples '
        'where at least one registration matched or a mutation ran.  Shared-callback scenarios: 1..3 callback objects each '
        'registered under several patterns on 1..2 ports through both APIs, 4..13 add/remove steps between dispatches, every '
        'header of those ports dispatched after every step.')
ASSUMPTIONS = ['matching rule: (header port & port mask) == registered port and (header channel & channel mask) == '
               'registered channel']
REQUIRED = ['mon.received_packets_shorter_than_a_pending_answer_pattern', 'mon.registrations_switched_from_an_all_packet_callback', 'mon.bound_method_registrations_removed_through_a_fresh_lookup_of_the_method', 'mon.received_packets_readdressed_by_a_callback', 'mon.scenarios_with_a_second_dispatcher_in_the_process', 'mon.packets_without_payload', 'mon.removals_of_absent_registrations', 'mon.packets', 'mon.must_deliveries', 'mon.mutations_executed', 'mon.raising_callbacks',
            'mon.caller_calls', 'mon.self_removals', 'mon.shared_callback_removals',
            'mon.shared_callback_multi_pattern_deliveries', 'mon.deliveries_through_the_public_wrappers']


def cases(tier, seed):
    n = 100 if tier == 'quick' else 600
    return [{'seed': seed * 100003 + i, 'scenarios': 60 if tier == 'quick' else 120} for i in range(n)] + \
        [{'seed': -1, 'scenarios': 0, 'fixed': True}]


class _Done(BaseException):
    pass


class _Link:
    def __init__(self, packets):
        self.packets = list(packets)
        self.i = 0
        self.needs_resending = False

    def receive_packet(self, wait=0):
        if self.i >= len(self.packets):
            raise _Done()
        pk = self.packets[self.i]
        self.i += 1
        return pk

    def send_packet(self, pk):
        return True

    def close(self):
        pass


class _Cf:
    def __init__(self, link, Caller):
        self.link = link
        self.packet_received = Caller()


def matches(reg, header):
    port, chan = (header >> 4) & 0xF, header & 3
    return reg['port'] == (port & reg['pmask']) and reg['chan'] == (chan & reg['cmask'])


MASKS = (0xFF, 0xF0, 0x0F, 0x03, 0x00)


def gen_regs(rnd, n):
    regs, seen = [], set()
    while len(regs) < n:
        if rnd.random() < 0.4:
            port = rnd.choice((rnd.randrange(16), rnd.randrange(16), 0xFF))
            r = {'port': port, 'pmask': 0xFF, 'chan': 0, 'cmask': 0, 'api': 'port'}
        else:
            pm = rnd.choice(MASKS)
            cm = rnd.choice(MASKS)
            port = rnd.randrange(16)
            chan = rnd.randrange(4)
            if rnd.random() < 0.6:
                port &= pm
                chan &= cm
            r = {'port': port, 'pmask': pm, 'chan': chan, 'cmask': cm, 'api': 'header'}
        key = (r['port'], r['pmask'], r['chan'], r['cmask'])
        if key in seen:
            continue
        seen.add(key)
        regs.append(r)
    return regs


_STOP = {'leak': False}


def run_scenario(ctx, regs, script, raising, headers, label):
    """script: list of (actor reg index, nth invocation, op, arg)."""
    from cflib.crazyflie import _IncomingPacketHandler
    from cflib.crtp.crtpstack import CRTPPacket
    from cflib.utils.callbacks import Caller
    packets = []
    for uid, h in enumerate(headers):
        # (payloads of every kind: a packet may consist of its header alone)
        pk = CRTPPacket(h, [uid & 0xFF, (uid >> 8) & 0xFF] if (uid * 7 + len(headers)) % 5 else [])
        pk._uid = uid
        packets.append(pk)
    link = _Link(packets)
    cf = _Cf(link, Caller)
    handler = _IncomingPacketHandler(cf)
    # a second Crazyflie object of the same process (a swarm member) has a dispatcher of its own with a catch-all
    # registration: what is received on this link is none of its business
    other_calls = []
    other = _IncomingPacketHandler(_Cf(_Link([]), Caller))
    other.add_header_callback(lambda pk_: other_calls.append(getattr(pk_, '_uid', None)), 0, 0, 0x00, 0x00)
    if _STOP['leak']:
        return
    log = []          # (uid, reg id)
    allpk = []
    cf.packet_received.add_callback(lambda pk: allpk.append(pk._uid))
    table = []        # current registrations (ids) in registration order, maintained by the harness
    cbs = {}
    invoc = {}
    state = {'uid': None, 'removed_now': set(), 'added_now': set(), 'start_table': [], 'mut': 0, 'selfrem': 0}
    extra_regs = []
    keep = []

    # The harness table is the reference model: it is updated for every scripted operation.  The library call is made
    # as an application would make it; when a library call raises, the rest of that callback's script is not carried
    # out on the library (the application's callback has been aborted) while the model still holds what the
    # application asked for - so the difference shows up in the deliveries.
    live = {'on': True}

    def add(rid):
        r = allregs[rid]
        table.append(rid)
        state['added_now'].add(rid)
        if not live['on']:
            return
        if r['api'] == 'port':
            handler.add_port_callback(r['port'], cbs[rid])
        else:
            handler.add_header_callback(cbs[rid], r['port'], r['chan'], r['pmask'], r['cmask'])

    def remove(rid):
        r = allregs[rid]
        present = rid in table
        if present:
            table.remove(rid)
            state['removed_now'].add(rid)
        else:
            # removing what is not (or no longer) registered changes nothing
            state['absent_removals'] = state.get('absent_removals', 0) + 1
        if not live['on']:
            return
        # a bound method is looked up again when it is removed (`obj.method` is a new, equal object every time)
        cb_ = holders[rid].method if rid in holders else cbs[rid]
        if rid in holders and present:
            state['bound_removed'] = state.get('bound_removed', 0) + 1
        if r['api'] == 'port':
            handler.remove_port_callback(r['port'], cb_)
        else:
            handler.remove_header_callback(cb_, r['port'], r['chan'], r['pmask'], r['cmask'])

    holders = {}

    def mk(rid):
        def cb(pk):
            log.append((pk._uid, rid))
            invoc[rid] = invoc.get(rid, 0) + 1
            failed = None
            if (pk._uid * 5 + rid) % 11 == 0:
                # the callback re-uses the packet it was handed for its answer: new address, sent off
                pk.set_header((pk.port + 3) % 16, (pk.channel + 1) % 4)
                state['readdressed'] = state.get('readdressed', 0) + 1
            for (actor, nth, op, arg) in script:
                if actor == rid and nth == invoc[rid]:
                    state['mut'] += 1
                    try:
                        if op == 'remove_self':
                            state['selfrem'] += 1
                            remove(rid)
                        elif op == 'remove':
                            remove(arg)
                        elif op == 'add':
                            if arg not in table:
                                add(arg)
                        elif op == 'add_remove':
                            if arg not in table:
                                add(arg)
                                remove(arg)
                    except Exception as e:  # noqa
                        if failed is None:
                            failed = e
                            live['on'] = False
                            state['library_call_raised'] = repr(e)[:120]
            live['on'] = True
            if failed is not None:
                raise failed
            if raising is not None and raising == rid:
                raise ValueError('scripted failure in callback %d' % rid)
        cb.__name__ = 'cb%d' % rid
        # callbacks come in every callable flavour an application may register
        kind = (rid + len(headers) + len(regs)) % 4
        if kind == 1:
            import functools
            return functools.partial(cb)
        if kind == 2:
            class _Obj:
                def __call__(self, pk):
                    return cb(pk)
            return _Obj()
        if kind == 3:
            class _Holder:
                def method(self, pk):
                    return cb(pk)
            keep.append(_Holder())
            holders[rid] = keep[-1]
            return keep[-1].method
        return cb

    allregs = list(regs)
    # registrations that scripts may add later (distinct from the initial ones)
    for (actor, nth, op, arg) in script:
        if op in ('add', 'add_remove') and isinstance(arg, dict):
            allregs.append(arg)
    script = [(a, n, op, (allregs.index(arg) if isinstance(arg, dict) else arg)) for (a, n, op, arg) in script]
    # one more registration (a catch-all) that the application switches on and off from an ALL-packet callback
    # (cf.packet_received - e.g. "subscribe when the first packet shows the link is up"): such a change is made before the
    # packet is matched against the registrations, so it already counts for the packet that is being handled
    toggled = len(allregs)
    allregs.append({'api': 'header', 'port': 0, 'chan': 0, 'pmask': 0x00, 'cmask': 0x00})
    for rid in range(len(allregs)):
        cbs[rid] = mk(rid)
    for rid in range(len(regs)):
        add(rid)

    def toggle_from_all_packet_callback(pk_):
        if (pk_._uid * 3 + len(headers)) % 5 != 1:
            return
        if toggled in table:
            remove(toggled)
        else:
            add(toggled)
        state['removed_now'].discard(toggled)
        state['added_now'].discard(toggled)
        state['start_override'] = list(table)
        state['toggles'] = state.get('toggles', 0) + 1
    cf.packet_received.add_callback(toggle_from_all_packet_callback)
    del extra_regs
    # dispatch packet by packet so that the harness knows the table at the start of each dispatch
    violations = 0
    try_order = []
    for pk in packets:
        link.packets = [pk]
        link.i = 0
        state['removed_now'] = set()
        state['added_now'] = set()
        start_table = list(table)
        before = len(log)
        died = None
        try:
            handler.run()
        except _Done:
            pass
        except BaseException as e:  # noqa
            died = e
        ctx.count('mon.packets')
        start_table = state.pop('start_override', start_table)
        if len(pk.data) == 0:
            ctx.count('mon.packets_without_payload')
        ctx.evals()
        h = headers[pk._uid] | 0x0C       # the header as it was received (a callback may have re-addressed the packet object)
        got = [rid for (uid, rid) in log[before:]]
        if died is not None:
            ctx.violate('dispatch:dispatcher-died:%s' % type(died).__name__,
                        {'label': label, 'header': h, 'error': repr(died)})
            return
        must = [rid for rid in start_table if matches(allregs[rid], h)]
        # a registration removed by a callback that ran before its turn may or may not be called
        may = set()
        order = {rid: i for i, rid in enumerate(start_table)}
        # determine, in table order, which were removed before their turn: replay using the log
        called_pos = {}
        for pos, rid in enumerate(got):
            called_pos.setdefault(rid, pos)
        removed_now = set(state['removed_now'])
        for rid in list(must):
            if rid in removed_now and rid not in called_pos:
                # removed during this dispatch and not called: fine only if the removal happened before its turn,
                # i.e. by a callback that precedes it in table order
                removers = [a for (a, n, op, arg) in script if (op == 'remove' and arg == rid) or
                            (op == 'remove_self' and a == rid)]
                if any(a in called_pos and order.get(a, 1 << 30) < order[rid] for a in removers):
                    may.add(rid)
        for rid in state['added_now']:
            if matches(allregs[rid], h):
                may.add(rid)
        mustset = [rid for rid in must if rid not in may]
        ctx.count('mon.must_deliveries', len(mustset))
        from collections import Counter
        c = Counter(got)
        bad = None
        for rid in mustset:
            if c[rid] != 1:
                bad = ('dispatch:matching-callback-called-%d-times' % c[rid], rid)
                break
        if bad is None:
            for rid, n in c.items():
                if rid in mustset:
                    continue
                if rid in may:
                    if n > 1:
                        bad = ('dispatch:callback-called-%d-times' % n, rid)
                        break
                    continue
                bad = ('dispatch:non-matching-or-unregistered-callback-called', rid)
                break
        if bad is None and allpk[-1:] != [pk._uid]:
            bad = ('dispatch:packet_received-caller-not-notified', None)
        if bad is not None:
            mech = bad[0]
            if state['selfrem'] and bad[0] == 'dispatch:matching-callback-called-0-times':
                mech += ':after-self-removing-callback' if _after_self_removal(bad[1], start_table, script, got) else ''
            if raising is not None and raising in got:
                mech += ':with-raising-callback'
            ctx.violate(mech, {'label': label, 'header': h, 'start_table': [allregs[r] for r in start_table],
                               'script': script, 'raising': raising, 'called': got, 'must': mustset,
                               'may': sorted(may), 'offending_registration': bad[1]})
            violations += 1
            if violations > 2:
                return
        if must or state['mut']:
            ctx.nontrivial((label, h))
        try_order.append(got)
    # arrival order per registration
    last = {}
    for (uid, rid) in log:
        if rid in last and uid < last[rid]:
            ctx.violate('dispatch:deliveries-out-of-arrival-order', {'label': label, 'rid': rid})
            break
        last[rid] = uid
    if allpk != list(range(len(packets))):
        ctx.violate('dispatch:packet_received-sequence-wrong', {'label': label, 'got': allpk[:20]})
    ctx.count('mon.scenarios_with_a_second_dispatcher_in_the_process')
    if other_calls:
        ctx.violate('dispatch:packet-delivered-to-a-registration-of-another-crazyflie-object',
                    {'label': label, 'packets_seen_by_the_other_object': len(other_calls)})
        _STOP['leak'] = True        # (every later scenario of this worker would only repeat it, ever more slowly)
    ctx.count('mon.mutations_executed', state['mut'])
    ctx.count('mon.self_removals', state['selfrem'])
    ctx.count('mon.removals_of_absent_registrations', state.get('absent_removals', 0))
    ctx.count('mon.registrations_switched_from_an_all_packet_callback', state.get('toggles', 0))
    ctx.count('mon.bound_method_registrations_removed_through_a_fresh_lookup_of_the_method', state.get('bound_removed', 0))
    ctx.count('mon.received_packets_readdressed_by_a_callback', state.get('readdressed', 0))
    if state.get('library_call_raised'):
        ctx.count('obs.add_or_remove_call_raised_inside_a_callback')
    if raising is not None and invoc.get(raising):
        ctx.count('mon.raising_callbacks')


def run_shared(ctx, rnd, label):
    """One callback object registered under several patterns (the way applications register one handler for a whole
    port and again for one channel of it); registrations come and go between dispatches.  Oracle per packet: the
    callback is invoked once per currently matching registration of it; a removal takes away that pattern only."""
    from cflib.crazyflie import _IncomingPacketHandler
    from cflib.crtp.crtpstack import CRTPPacket
    from cflib.utils.callbacks import Caller
    link = _Link([])
    cf = _Cf(link, Caller)
    handler = _IncomingPacketHandler(cf)
    ncb = rnd.randrange(1, 4)
    calls = []
    cbs = [(lambda pk, i=i: calls.append(i)) for i in range(ncb)]
    ports = [rnd.randrange(16) for _ in range(rnd.randrange(1, 3))]
    table = []     # (cb index, port, pmask, chan, cmask)
    history = []

    def rand_key():
        port = rnd.choice(ports)
        if rnd.random() < 0.35:
            return (port, 0xFF, 0, 0, 'port')
        cm = rnd.choice((0xFF, 0x03, 0x01, 0x02, 0x00))
        pm = rnd.choice((0xFF, 0xFF, 0x0F, 0xF0))
        chan = rnd.randrange(4) & cm
        return (port & pm, pm, chan, cm, 'header')

    for step in range(rnd.randrange(4, 14)):
        if table and rnd.random() < 0.45:
            ent = rnd.choice(table)
            i, port, pm, chan, cm = ent
            if (pm, chan, cm) == (0xFF, 0, 0) and rnd.random() < 0.7:
                handler.remove_port_callback(port, cbs[i])
            else:
                handler.remove_header_callback(cbs[i], port, chan, pm, cm)
            table.remove(ent)
            history.append(('remove',) + ent)
            ctx.count('mon.shared_callback_removals')
        else:
            i = rnd.randrange(ncb)
            port, pm, chan, cm, api = rand_key()
            ent = (i, port, pm, chan, cm)
            if ent in table:
                continue
            if api == 'port':
                handler.add_port_callback(port, cbs[i])
            else:
                handler.add_header_callback(cbs[i], port, chan, pm, cm)
            table.append(ent)
            history.append(('add',) + ent)
        hs = sorted({(p << 4) | c for p in ports for c in range(4)} | {rnd.randrange(256) for _ in range(3)})
        for h in hs:
            pk = CRTPPacket(h, [1] if h % 3 else [])
            link.packets = [pk]
            link.i = 0
            del calls[:]
            try:
                handler.run()
            except _Done:
                pass
            ctx.evals()
            ctx.count('mon.packets')
            hp, hc = (h >> 4) & 0xF, h & 3
            want = [0] * ncb
            for (i, port, pm, chan, cm) in table:
                if port == (hp & pm) and chan == (hc & cm):
                    want[i] += 1
            got = [calls.count(i) for i in range(ncb)]
            if sum(want) > 1:
                ctx.count('mon.shared_callback_multi_pattern_deliveries')
            if sum(want):
                ctx.nontrivial((label, step, h))
            if got != want:
                ctx.violate('dispatch:shared-callback:deliveries-differ-from-matching-registrations' +
                            (':after-removal-of-another-pattern' if any(x[0] == 'remove' for x in history) else ''),
                            {'label': label, 'header': h, 'history': history, 'table': table, 'want': want, 'got': got})
                return


def run_public(ctx, rnd, label):
    """The same oracle through the public wrappers of a real Crazyflie object (add/remove_port_callback,
    add/remove_header_callback) instead of the handler's own methods; application ports only."""
    import logging
    from cflib.crazyflie import Crazyflie
    from cflib.crtp.crtpstack import CRTPPacket
    logging.disable(logging.CRITICAL)
    cf = Crazyflie()
    link = _Link([])
    cf.link = link
    free_ports = (1, 9, 10, 11, 12, 14)
    # half of the runs: the link asks for retransmissions and requests with expected answers are pending while the
    # packets arrive, so that the answer matching (which sees every packet first) runs against patterns that are
    # longer than, equal to and shorter than the packets - it must neither consume nor stop the dispatching
    pending = rnd.random() < 0.5
    link.needs_resending = pending
    ncb = rnd.randrange(1, 4)
    calls = []
    cbs = [(lambda pk, i=i: calls.append(i)) for i in range(ncb)]
    table = []
    history = []
    for step in range(rnd.randrange(3, 9)):
        if table and rnd.random() < 0.35:
            ent = rnd.choice(table)
            i, port, pm, chan, cm = ent
            if (pm, chan, cm) == (0xFF, 0, 0) and rnd.random() < 0.7:
                cf.remove_port_callback(port, cbs[i])
            else:
                cf.remove_header_callback(cbs[i], port, chan, pm, cm)
            table.remove(ent)
            history.append(('remove',) + ent)
        else:
            i = rnd.randrange(ncb)
            port = rnd.choice(free_ports)
            if rnd.random() < 0.3:
                ent = (i, port, 0xFF, 0, 0)
                if ent in table:
                    continue
                cf.add_port_callback(port, cbs[i])
            else:
                pm = rnd.choice((0xFF, 0xFF, 0x0F, 0x0E, 0x08))
                cm = rnd.choice((0xFF, 0x03, 0x01, 0x02, 0x00))
                ent = (i, port & pm, pm, rnd.randrange(4) & cm, cm)
                if ent in table:
                    continue
                if rnd.random() < 0.3 and (pm, cm) == (0xFF, 0xFF):
                    cf.add_header_callback(cbs[i], ent[1], ent[3])          # default masks
                else:
                    cf.add_header_callback(cbs[i], ent[1], ent[3], pm, cm)
            table.append(ent)
            history.append(('add',) + ent)
        patterns = {}
        if pending:
            for _ in range(rnd.randrange(1, 4)):
                ph = rnd.choice(free_ports) << 4 | rnd.randrange(4)
                reply = tuple([1] + [rnd.randrange(256) for _ in range(rnd.randrange(0, 4))])[:rnd.randrange(1, 5)]
                rq = CRTPPacket(ph, [7])
                cf.send_packet(rq, expected_reply=reply, timeout=1e6)
                patterns[ph] = reply
        for h in range(256):
            link.packets = [CRTPPacket(h, [1] if h % 3 else [])]
            link.i = 0
            del calls[:]
            if h in patterns and len(link.packets[0].data) < len(patterns[h]):
                ctx.count('mon.received_packets_shorter_than_a_pending_answer_pattern')
            try:
                cf.incoming.run()
            except _Done:
                pass
            except Exception as e:
                ctx.violate('dispatch:public-wrappers:processing-stopped-by-a-received-packet:%s' % type(e).__name__,
                            {'label': label, 'header': h, 'pending_patterns': {k: list(v) for k, v in patterns.items()},
                             'error': repr(e)})
                cf._cancel_pending_answers()
                return
            ctx.evals()
            ctx.count('mon.packets')
            hp, hc = (h >> 4) & 0xF, h & 3
            want = [0] * ncb
            for (i, port, pm, chan, cm) in table:
                if port == (hp & pm) and chan == (hc & cm):
                    want[i] += 1
            got = [calls.count(i) for i in range(ncb)]
            if sum(want):
                ctx.nontrivial((label, step, h))
                ctx.count('mon.deliveries_through_the_public_wrappers', sum(want))
            if got != want:
                ctx.violate('dispatch:public-wrappers:deliveries-differ-from-matching-registrations',
                            {'label': label, 'header': h, 'history': history, 'table': table, 'want': want, 'got': got})
                cf._cancel_pending_answers()
                return
        cf._cancel_pending_answers()


def _after_self_removal(rid, start_table, script, got):
    if rid not in start_table:
        return False
    i = start_table.index(rid)
    prev = [r for r in start_table[:i] if r in got]
    return bool(prev) and any(op == 'remove_self' and a == prev[-1] for (a, n, op, arg) in script)


def gen_script(rnd, regs):
    n = len(regs)
    script = []
    for _ in range(rnd.randrange(0, 4)):
        actor = rnd.randrange(n)
        op = rnd.choice(('remove_self', 'remove', 'add', 'add_remove', 'remove'))
        if op == 'remove':
            arg = rnd.randrange(n)
        elif op in ('add', 'add_remove'):
            arg = gen_regs(rnd, 1)[0]
            if any((arg['port'], arg['pmask'], arg['chan'], arg['cmask']) ==
                   (r['port'], r['pmask'], r['chan'], r['cmask']) for r in regs):
                continue
        else:
            arg = None
        script.append((actor, rnd.randrange(1, 4), op, arg))
    return script


def run_caller(ctx, rnd):
    """Caller.add/remove/call under the same kind of scripts."""
    from cflib.utils.callbacks import Caller
    c = Caller()
    n = rnd.randrange(1, 7)
    log = []
    cbs = {}
    present = []
    script = [(rnd.randrange(n), rnd.choice(('remove_self', 'remove', 'add')), rnd.randrange(n)) for _ in
              range(rnd.randrange(0, 3))]

    def mk(i):
        def cb(*args):
            log.append((i, args))
            for (actor, op, arg) in script:
                if actor == i:
                    if op == 'remove_self' and i in present:
                        c.remove_callback(cbs[i])
                        present.remove(i)
                    elif op == 'remove' and arg in present:
                        c.remove_callback(cbs[arg])
                        present.remove(arg)
                    elif op == 'add':
                        c.add_callback(cbs[arg])
                        if arg not in present:
                            present.append(arg)
        return cb
    for i in range(n):
        cbs[i] = mk(i)
    for i in range(n):
        c.add_callback(cbs[i])
        c.add_callback(cbs[i])     # duplicates are ignored
        present.append(i)
    for call_no in range(3):
        start = list(present)
        before = len(log)
        args = (call_no, 'x')
        c.call(*args)
        ctx.evals()
        ctx.count('mon.caller_calls')
        got = [i for (i, a) in log[before:]]
        if any(a != args for (i, a) in log[before:]):
            ctx.violate('caller:wrong-arguments', {'log': log[before:]})
        if got != start:
            ctx.violate('caller:callbacks-present-at-call-start-not-called-once-in-order',
                        {'present': start, 'called': got, 'script': script})
            return
    # after removal: no further calls
    for i in list(present):
        c.remove_callback(cbs[i])
    before = len(log)
    c.call(1)
    if len(log) != before:
        ctx.violate('caller:called-after-removal', {})


def run(desc, ctx):
    core.setup_path()
    if desc.get('fixed'):
        # fixed corpus guaranteed to reach every monitor: plain, self-removing, raising
        all_headers = list(range(256))
        regs = [{'port': 5, 'pmask': 0xFF, 'chan': 0, 'cmask': 0, 'api': 'port'},
                {'port': 5, 'pmask': 0xFF, 'chan': 1, 'cmask': 0xFF, 'api': 'header'},
                {'port': 5, 'pmask': 0xFF, 'chan': 1, 'cmask': 0x03, 'api': 'header'},
                {'port': 0, 'pmask': 0x00, 'chan': 0, 'cmask': 0x00, 'api': 'header'}]
        run_scenario(ctx, regs, [], None, all_headers, 'fixed-plain')
        run_scenario(ctx, regs, [(0, 1, 'remove_self', None)], None, [0x51, 0x51, 0x50], 'fixed-self-removal')
        run_scenario(ctx, regs, [(1, 1, 'remove', 2)], None, [0x51, 0x51], 'fixed-remove-later')
        for r in range(4):
            run_scenario(ctx, regs, [], r, [0x51, 0x51, 0x20], 'fixed-raising-%d' % r)
        run_caller(ctx, random.Random(1))
        ctx.sample({'registrations': regs, 'headers': 'all 256', 'script': 'none / self removal / raising at each position'})
        return
    rnd = random.Random(desc['seed'])
    for sc in range(desc['scenarios']):
        regs = gen_regs(rnd, rnd.randrange(1, 9))
        script = gen_script(rnd, regs)
        raising = rnd.randrange(len(regs)) if rnd.random() < 0.35 else None
        # headers: a slice of all 256 plus those that match something, repeated to let nth-invocation scripts fire
        hs = [h for h in range(256) if any(matches(r, h) for r in regs)]
        rnd.shuffle(hs)
        headers = hs[:10] + [rnd.randrange(256) for _ in range(6)] + hs[:5]
        if sc % 20 == 0:
            headers = list(range(256))
        run_scenario(ctx, regs, script, raising, headers, 'seed%d-%d' % (desc['seed'], sc))
        if sc % 4 == 0:
            run_caller(ctx, rnd)
        run_shared(ctx, rnd, 'shared-seed%d-%d' % (desc['seed'], sc))
        if sc % 6 == 0:
            run_public(ctx, rnd, 'public-seed%d-%d' % (desc['seed'], sc))
        if sc == 0:
            ctx.sample({'registrations': regs, 'script': [(a, n, op, arg) for (a, n, op, arg) in script],
                        'raising': raising, 'headers': headers[:12]})

