"""C09 - lighthouse geometry estimation recovers the true base-station poses.

Generated rooms (ground truth known) -> error-free sweep-angle measurements -> the real pipeline
LighthouseSampleMatcher.match -> LighthouseInitialEstimator.estimate -> LighthouseGeometrySolver.solve.
Oracle: generating poses expressed in the frame of the first matched sample (1 mm / 1 mrad).
"""
import math
import random

from vf import core, lhgen

PROPERTY = 'C09'
LEVEL = 'exploration'
RULE = ('room = 2..6 base stations with arbitrary distinct ids 0..15 at 1.5-4 m range and 1.5-3 m height aimed at the '
        'flight volume (roll <= 0.2 rad), 3..40 Crazyflie poses in a 2x2x1 m volume (yaw uniform, tilt <= 0.15 rad), '
        'visibility by field of view with optional random drop-outs (partial chains, connectivity checked), measurements '
        'time-stamped with <= 20 ms spread per pose and shuffled within a group; plus deliberately unlinkable '
        'constellations. distinct_nontrivial = distinct rooms (seed, drop-out pattern) that went through the full pipeline.')
ASSUMPTIONS = ['visibility model: all four sensors within +-60 deg horizontal / +-50 deg vertical of the base station and '
               'the base station above the deck plane', 'measurements are exact (float64) V1 sweep angles']
REQUIRED = ['mon.rooms_solved_again_with_the_samples_in_another_order', 'mon.rooms_solved', 'mon.bs_poses_compared', 'mon.cf_poses_compared', 'mon.matcher_groups_checked',
            'mon.unlinkable_rooms', 'mon.partial_visibility_rooms', 'mon.tight_time_layouts', 'mon.matcher_streams',
            'mon.matcher_streams_with_pause_shorter_than_window', 'mon.rooms_with_windows_of_three_base_stations', 'mon.axis_aligned_rooms',
            'mon.pose_averages_of_near_identical_estimates_checked', 'mon.chain_visibility_rooms', 'mon.chain_rooms_walked_back_and_forth']
DESC_TIMEOUT = 1800


def cases(tier, seed):
    n = 24 if tier == 'quick' else 250
    per = 16
    return [{'seed': seed * 100003 + i, 'rooms': per} for i in range(n)] + \
        [{'seed': seed * 977 + i, 'matcher_streams': 400} for i in range(2 if tier == 'quick' else 40)]


def pose_err(R_est, t_est, R_true, t_true):
    import numpy as np
    return float(np.linalg.norm(np.asarray(t_est) - t_true)), lhgen.rot_angle(R_true.T @ np.asarray(R_est))


def run_room(ctx, rseed, mode, order=None):
    import numpy as np
    from cflib.localization.lighthouse_bs_vector import LighthouseBsVector, LighthouseBsVectors
    from cflib.localization.lighthouse_geometry_solver import LighthouseGeometrySolver
    from cflib.localization.lighthouse_initial_estimator import LighthouseInitialEstimator
    from cflib.localization.lighthouse_sample_matcher import LighthouseSampleMatcher
    from cflib.localization.lighthouse_types import LhDeck4SensorPositions, LhException, LhMeasurement
    rnd = random.Random(rseed)
    if mode == 'windows':
        # structured partial visibility: every pose is seen by a window of three base stations out of 4..6, consecutive
        # windows overlap in two (so a base station may be reachable only through samples that already hold two
        # located ones); several poses per window
        rm = lhgen.room(rseed, n_bs=4 + rseed % 3, n_cf=rnd.randint(12, 30))
        geo = lhgen.visibility(rm, partial_seed=rseed + 1, drop=0.0)
        ids_w = list(rm['ids'])
        rnd.shuffle(ids_w)
        nwin = len(ids_w) - 2
        order = list(range(nwin))
        if rnd.random() < 0.5:
            rnd.shuffle(order)
        per = max(1, len(rm['cf']) // nwin)
        vis = []
        for k, seen in enumerate(geo):
            w = order[min(nwin - 1, k // per)]
            vis.append([i for i in seen if i in ids_w[w:w + 3]])
    elif mode == 'axis':
        rm = lhgen.axis_room(rseed)
        vis = lhgen.visibility(rm, partial_seed=rseed + 1, drop=0.0)
    elif mode == 'chain':
        rm = lhgen.chain_room(rseed)
        vis = rm['vis']
    else:
        rm = lhgen.room(rseed)
        drop = 0.0 if mode == 'full' else rnd.choice((0.2, 0.4))
        vis = lhgen.visibility(rm, partial_seed=rseed + 1, drop=drop)
    if order is not None:
        # the same recording with its samples in another order (solved right after the first one, in the same process)
        n_ = len(rm['cf'])
        perm = list(range(n_))[::-1] if order == 'reversed' else [(k_ + n_ // 2) % n_ for k_ in range(n_)]
        rm = dict(rm, cf=[rm['cf'][k_] for k_ in perm])
        vis = [vis[k_] for k_ in perm]
    if mode == 'unlinkable':
        if len(rm['ids']) < 4:
            return 'skip'
        half = set(rm['ids'][:len(rm['ids']) // 2])
        vis = [[i for i in seen if (i in half) == (k % 2 == 0)] for k, seen in enumerate(vis)]
    groups = [(k, seen) for k, seen in enumerate(vis) if len(seen) >= 1]
    used = [(k, seen) for k, seen in groups if len(seen) >= 2]
    comps = lhgen.components(rm['ids'], [seen for _, seen in used])
    covered = {i for _, seen in used for i in seen}
    if mode != 'unlinkable':
        if len(used) < 3 or len(comps) != 1 or covered != set(rm['ids']):
            return 'skip'
    else:
        big = [c for c in comps if len(c) >= 2]
        if len(big) < 2 or len(used) < 3:
            return 'skip'
    # ---- measurements
    # time layout: poses well apart, or so close that the pause between two poses is shorter than the matching
    # window although each pose starts more than a window after the previous one started
    lrnd = random.Random(rseed ^ 0x5EED)
    spacing, spread = lrnd.choice(((0.1, 0.02), (0.1, 0.02), (0.025, 0.01), (0.03, 0.015), (0.035, 0.018), (0.0201, 0.004)))
    if spacing < 0.1:
        ctx.count('mon.tight_time_layouts')
    meas = []
    for (k, seen) in groups:
        base = k * spacing
        g = []
        for j, i in enumerate(seen):
            dirs = lhgen.sensor_dirs(rm['bs'][i], rm['cf'][k])
            vecs = LighthouseBsVectors([LighthouseBsVector(math.atan2(d[1], d[0]), math.atan2(d[2], d[0])) for d in dirs])
            ts = base + (0.0 if j == 0 else rnd.uniform(0.0, 0.02) * (spread / 0.02))
            g.append(LhMeasurement(timestamp=ts, base_station_id=i, angles=vecs))
        if spacing < 0.1:
            g.sort(key=lambda m: m.timestamp)
        else:
            rnd.shuffle(g)
        meas += g
    ctx.evals()
    # ---- matcher
    matched = LighthouseSampleMatcher.match(meas, min_nr_of_bs_in_match=2)
    ctx.count('mon.matcher_groups_checked', len(matched))
    okm = len(matched) == len(used)
    if okm:
        for smp, (k, seen) in zip(matched, used):
            if set(smp.angles_calibrated.keys()) != set(seen):
                okm = False
    if not okm:
        ctx.violate('lh:matcher-groups-differ-from-time-groups',
                    {'room_seed': rseed, 'mode': mode, 'matched': [sorted(s.angles_calibrated) for s in matched][:10],
                     'expected': [sorted(seen) for _, seen in used][:10]}, replay={'seed': rseed, 'rooms': 1, 'mode': mode, 'single': True})
        return 'done'
    sensors = LhDeck4SensorPositions.positions
    if not np.allclose(sensors, lhgen.SENSORS):
        ctx.violate('lh:sensor-positions-differ-from-deck-geometry', {'lib': sensors.tolist()})
        return 'done'
    rp = {'seed': rseed, 'rooms': 1, 'mode': mode, 'single': True}
    try:
        guess, cleaned = LighthouseInitialEstimator.estimate(matched, sensors)
        sol = LighthouseGeometrySolver.solve(guess, cleaned, sensors)
    except LhException as e:
        if mode == 'unlinkable':
            ctx.count('mon.unlinkable_rooms')
            ctx.nontrivial(('unlinkable', rseed))
            return 'done'
        mech = 'lh:linked-system-rejected'
        if len(matched) <= 5:
            mech = 'lh:sparse-room:mirror-solution-or-unconverged'      # same known finding: too few samples for the vote
        elif 'no reference' in str(e):
            # same known finding: the vote settled on the mirror cluster and then EVERY error-free sample was
            # discarded as an outlier, nothing is left to take the reference from
            mech = 'lh:sparse-room:mirror-solution-or-unconverged'
        if mech.startswith('lh:sparse-room'):
            ctx.count({'axis': 'mon.axis_rooms_hit_by_the_known_finding', 'chain': 'mon.chain_rooms_hit_by_the_known_finding'}.get(mode, 'mon.other_rooms_hit_by_the_known_finding'))
        ctx.violate(mech, {'room_seed': rseed, 'error': str(e), 'n_bs': len(rm['ids']), 'n_samples': len(used)}, replay=rp)
        return 'done'
    except Exception as e:  # noqa
        ctx.violate('lh:pipeline-raised:%s' % type(e).__name__,
                    {'room_seed': rseed, 'mode': mode, 'error': str(e)[:300], 'n_bs': len(rm['ids']), 'n_samples': len(used)},
                    replay=rp)
        return 'done'
    if mode == 'unlinkable':
        ctx.violate('lh:unlinkable-system-answered', {'room_seed': rseed, 'components': comps,
                                                      'bs_in_answer': sorted(sol.bs_poses)}, replay=rp)
        return 'done'
    # ---- ground truth in the frame of the first matched sample
    idx = {id(s): n for n, s in enumerate(matched)}
    ks = [used[idx[id(s)]][0] for s in cleaned]
    R0, t0 = rm['cf'][ks[0]]
    worst_t, worst_r = 0.0, 0.0
    bad = None
    if set(sol.bs_poses.keys()) != set(rm['ids']):
        bad = ('lh:base-station-set-differs', {'got': sorted(sol.bs_poses), 'want': sorted(rm['ids'])})
    else:
        bs_off = []
        for i in rm['ids']:
            Rb, tb = rm['bs'][i]
            et, er = pose_err(sol.bs_poses[i].rot_matrix, sol.bs_poses[i].translation, R0.T @ Rb, R0.T @ (tb - t0))
            ctx.count('mon.bs_poses_compared')
            worst_t, worst_r = max(worst_t, et), max(worst_r, er)
            if not (et < 1e-3 and er < 1e-3):
                bs_off.append({'id': i, 'translation_error_m': et, 'rotation_error_rad': er,
                               'seen_in_samples': sum(1 for s_ in cleaned if i in s_.angles_calibrated)})
        if len(sol.cf_poses) != len(ks):
            bad = ('lh:cf-pose-count-differs', {'got': len(sol.cf_poses), 'want': len(ks)})
        else:
            cf_off, bs_worst = [], (worst_t, worst_r)
            for j_, (p, k) in enumerate(zip(sol.cf_poses, ks)):
                Rc, tc = rm['cf'][k]
                et, er = pose_err(p.rot_matrix, p.translation, R0.T @ Rc, R0.T @ (tc - t0))
                ctx.count('mon.cf_poses_compared')
                worst_t, worst_r = max(worst_t, et), max(worst_r, er)
                if not (et < 1e-3 and er < 1e-3):
                    g_ = guess.cf_poses[j_] if j_ < len(guess.cf_poses) else None
                    ge = pose_err(g_.rot_matrix, g_.translation, R0.T @ Rc, R0.T @ (tc - t0)) if g_ is not None else (None, None)
                    cf_off.append({'sample': j_, 'seen_by': sorted(cleaned[j_].angles_calibrated.keys()) if j_ < len(cleaned) else None,
                                   'translation_error_m': et, 'rotation_error_rad': er,
                                   'initial_estimate_translation_error_m': ge[0], 'initial_estimate_rotation_error_rad': ge[1]})
    if bad is None and not (worst_t < 1e-3 and worst_r < 1e-3):
        bad = ('lh:pose-error-above-1mm-1mrad', {'worst_translation_m': worst_t, 'worst_rotation_rad': worst_r,
                                                  'solver_success': bool(sol.success)})
    if bad is not None and bad[0] == 'lh:pose-error-above-1mm-1mrad' and sol.success and len(cleaned) == len(matched) and \
            len(matched) > 5 and bs_worst[0] < 1e-3 and bs_worst[1] < 1e-3 and worst_t < 1e-3 and cf_off and \
            all(c_['translation_error_m'] < 1e-3 and c_['initial_estimate_rotation_error_rad'] is not None and
                c_['initial_estimate_rotation_error_rad'] > 0.5 and c_['initial_estimate_translation_error_m'] < 0.01 and
                len(c_['seen_by'] or ()) == 2 for c_ in cf_off):
        # second known finding: every position (base stations and Crazyflie) is right to a millimetre, but the initial estimator
        # handed the solver the MIRROR orientation for a Crazyflie pose that is seen by two base stations only (position right,
        # orientation off by a large angle) and the solver stayed in that local minimum (success=True)
        bad = ('lh:crazyflie-pose-seen-by-two-base-stations-left-in-its-mirror-orientation',
               dict(bad[1], poses_left_in_the_mirror_orientation=cf_off[:4], samples=len(matched)))
        ctx.count('mon.rooms_hit_by_the_mirror_orientation_finding')
    if bad is not None and bad[0] == 'lh:pose-error-above-1mm-1mrad' and sol.success and len(cleaned) == len(matched) and \
            len(matched) > 5 and bs_off and not cf_off and all(b_['seen_in_samples'] <= 2 for b_ in bs_off):
        # third known finding: every Crazyflie pose and every other base station is right; the base stations that are off are
        # seen in one or two samples only - nothing to vote on between their two IPPE solutions, the mirror one was taken
        bad = ('lh:base-station-seen-in-one-or-two-samples-placed-at-its-mirror-pose',
               dict(bad[1], base_stations_off=bs_off[:4], samples=len(matched)))
        ctx.count('mon.other_rooms_hit_by_the_known_finding' if mode not in ('axis', 'chain') else
                  {'axis': 'mon.axis_rooms_hit_by_the_known_finding', 'chain': 'mon.chain_rooms_hit_by_the_known_finding'}[mode])
    if bad is not None and bad[0] in ('lh:pose-error-above-1mm-1mrad', 'lh:base-station-set-differs') and \
            (len(matched) <= 5 or len(cleaned) < len(matched) or not sol.success):
        # poor initial estimate (known finding): the estimator's vote between the mirror IPPE solutions had too few
        # samples (<= 5), it discarded error-free samples as outliers, or the solver reports success=False
        bad = ('lh:sparse-room:mirror-solution-or-unconverged', dict(bad[1], matched_samples=len(matched),
                                                                     samples_kept_by_estimator=len(cleaned)))
        ctx.count({'axis': 'mon.axis_rooms_hit_by_the_known_finding', 'chain': 'mon.chain_rooms_hit_by_the_known_finding'}.get(mode, 'mon.other_rooms_hit_by_the_known_finding'))
    if bad is not None:
        bad[1].update({'room_seed': rseed, 'mode': mode, 'n_bs': len(rm['ids']), 'n_samples': len(ks),
                       'visibility': [seen for _, seen in used][:12]})
        ctx.violate(bad[0], bad[1], replay=rp)
        return 'done'
    ctx.count('mon.rooms_solved')
    if mode == 'partial':
        ctx.count('mon.partial_visibility_rooms')
    if mode == 'windows':
        ctx.count('mon.rooms_with_windows_of_three_base_stations')
    if mode == 'axis':
        ctx.count('mon.axis_aligned_rooms')
    if mode == 'chain':
        ctx.count('mon.chain_visibility_rooms')
        if rm.get('order') == 'back-and-forth':
            ctx.count('mon.chain_rooms_walked_back_and_forth')
    ctx.count('worst_translation_nm', 0)
    ctx.nontrivial((mode, rseed))
    return (worst_t, worst_r, len(rm['ids']), len(ks))


def run_matcher_streams(ctx, seed, n):
    """Reference-model monitor of the sample matcher on time-ordered measurement streams: a group holds the
    measurements that lie within max_time_diff of the group's FIRST measurement; per base station the latest
    measurement of the group wins; groups with fewer than min_nr_of_bs base stations are dropped."""
    from cflib.localization.lighthouse_sample_matcher import LighthouseSampleMatcher
    from cflib.localization.lighthouse_types import LhMeasurement
    rnd = random.Random(seed)
    for case in range(n):
        mtd = rnd.choice((0.020, 0.020, 0.005, 0.1, 0.0))
        min_bs = rnd.choice((0, 1, 2, 3))
        nbs = rnd.randint(1, 5)
        t = rnd.choice((0.0, 1.0, 1234.5))
        meas = []
        for _ in range(rnd.randint(0, 40)):
            r = rnd.random()
            unit = mtd if mtd > 0 else 0.01
            if r < 0.45:
                gap = rnd.uniform(0, 0.4) * unit
            elif r < 0.6:
                gap = rnd.uniform(0.6, 0.999) * unit       # shorter than the window
            elif r < 0.75:
                gap = rnd.uniform(1.001, 1.5) * unit       # longer than the window
            elif r < 0.85:
                gap = 0.0
            else:
                gap = rnd.uniform(2, 10) * unit
            t += gap
            meas.append(LhMeasurement(timestamp=t, base_station_id=rnd.randrange(nbs), angles=('angles', len(meas))))
        want = []
        cur = None
        for m in meas:
            if cur is None or m.timestamp > cur[0] + mtd:
                if cur is not None and len(cur[1]) >= min_bs:
                    want.append(cur)
                cur = (m.timestamp, {})
            cur[1][m.base_station_id] = m.angles
        if cur is not None and len(cur[1]) >= min_bs:
            want.append(cur)
        try:
            got = LighthouseSampleMatcher.match(meas, max_time_diff=mtd, min_nr_of_bs_in_match=min_bs)
        except Exception as e:  # noqa
            ctx.violate('lh:matcher-raised:%s' % type(e).__name__, {'error': repr(e), 'n': len(meas)},
                        replay={'seed': seed, 'matcher_streams': n})
            return
        ctx.evals()
        ctx.count('mon.matcher_streams')
        gotn = [(g.timestamp, dict(g.angles_calibrated)) for g in got]
        spans = [w for w in want]
        if any(b[0] - a[0] <= 2 * mtd for a, b in zip(spans, spans[1:])):
            ctx.count('mon.matcher_streams_with_pause_shorter_than_window')
        if want:
            ctx.nontrivial(('matcher', seed, case))
        if gotn != [(w[0], w[1]) for w in want]:
            ctx.violate('lh:matcher-groups-differ-from-time-groups:stream-model',
                        {'max_time_diff': mtd, 'min_bs': min_bs, 'timestamps': [round(m.timestamp, 5) for m in meas][:40],
                         'bs': [m.base_station_id for m in meas][:40], 'got_groups': [(round(a, 5), sorted(b)) for a, b in gotn][:20],
                         'want_groups': [(round(w[0], 5), sorted(w[1])) for w in want][:20]},
                        replay={'seed': seed, 'matcher_streams': n})
            return


_avg_state = {'installed': False, 'ctx': None}


def install_average_monitor(ctx):
    """Postcondition hook on the estimator's pose averaging (an "invariant at a hook"): when the estimates handed to it
    are near-identical (pairwise rotation angle < 0.1 rad, positions within 0.1 m) the average must lie among them.
    Valid for any sound averaging rule; skipped when the inputs are spread out (mirror solutions mixed in)."""
    import numpy as np
    from cflib.localization.lighthouse_initial_estimator import LighthouseInitialEstimator as E
    _avg_state['ctx'] = ctx
    if _avg_state['installed']:
        return
    _avg_state['installed'] = True
    orig = E._avarage_poses.__func__

    def monitored(cls, poses):
        out = orig(cls, poses)
        c = _avg_state['ctx']
        try:
            Rs = [np.asarray(p.rot_matrix) for p in poses]
            ts = [np.asarray(p.translation) for p in poses]
            if len(poses) >= 1 and c is not None:
                spread_r = max([lhgen.rot_angle(a.T @ b) for a in Rs for b in Rs] or [0.0])
                spread_t = max([float(np.linalg.norm(a - b)) for a in ts for b in ts] or [0.0])
                if spread_r < 0.1 and spread_t < 0.1:
                    c.count('mon.pose_averages_of_near_identical_estimates_checked')
                    er = max(lhgen.rot_angle(np.asarray(out.rot_matrix).T @ a) for a in Rs)
                    et = max(float(np.linalg.norm(np.asarray(out.translation) - a)) for a in ts)
                    if er > spread_r + 1e-6 or et > spread_t + 1e-9:
                        c.violate('lh:pose-average-outside-the-spread-of-near-identical-estimates',
                                  {'inputs': len(poses), 'input_rotation_spread_rad': spread_r, 'average_off_by_rad': er,
                                   'input_position_spread_m': spread_t, 'average_off_by_m': et})
        except Exception:   # the monitor must never disturb the pipeline
            pass
        return out
    E._avarage_poses = classmethod(monitored)


def post_check(counters, tier):
    """Axis-aligned rooms hit the known estimator finding in about 14 % of the rooms on the repaired tree (41 of 300,
    measured); a rate far above that is something else."""
    bad = counters.get('mon.axis_rooms_hit_by_the_known_finding', 0)
    good = counters.get('mon.axis_aligned_rooms', 0)
    if bad + good >= 40 and bad > 0.38 * (bad + good):
        return [('lh:axis-aligned-rooms:initial-estimate-failures-far-above-the-known-rate',
                 {'axis_rooms': bad + good, 'failed': bad, 'known_rate': 0.14})]
    # chain rooms (every pair of base stations seen once or twice): CHAIN_RATE measured on the repaired tree
    badc = counters.get('mon.chain_rooms_hit_by_the_known_finding', 0)
    goodc = counters.get('mon.chain_visibility_rooms', 0)
    if badc + goodc >= 20 and badc > 0.25 * (badc + goodc):
        return [('lh:chain-visibility-rooms:initial-estimate-failures-far-above-the-known-rate',
                 {'chain_rooms': badc + goodc, 'failed': badc})]
    # the mirror-orientation finding: one room in many thousands on the repaired tree
    badm = counters.get('mon.rooms_hit_by_the_mirror_orientation_finding', 0)
    if badm >= 4 and badm > 0.01 * max(1, counters.get('mon.rooms_solved', 0)):
        return [('lh:crazyflie-poses-left-in-the-mirror-orientation-far-above-the-known-rate',
                 {'rooms': counters.get('mon.rooms_solved', 0), 'hit': badm})]
    # generic rooms (random poses; full, random partial and windowed visibility): about 1 in 3000 on the repaired tree
    bado = counters.get('mon.other_rooms_hit_by_the_known_finding', 0)
    goodo = counters.get('mon.rooms_solved', 0) - good - goodc
    if bado >= 5 and bado > 0.02 * (bado + goodo):
        return [('lh:generic-rooms:initial-estimate-failures-far-above-the-known-rate',
                 {'generic_rooms': bado + goodo, 'failed': bado, 'known_rate': 1 / 3000.0})]
    return []


def run(desc, ctx):
    core.setup_path()
    import warnings
    warnings.filterwarnings('ignore')
    if not desc.get('matcher_streams'):
        install_average_monitor(ctx)
    if desc.get('matcher_streams'):
        run_matcher_streams(ctx, desc['seed'], desc['matcher_streams'])
        return
    if desc.get('single'):
        run_room(ctx, desc['seed'], desc['mode'])
        return
    worst = (0.0, 0.0)
    first = None
    known_before = ctx.counters.get('mon.other_rooms_hit_by_the_known_finding', 0)
    for j in range(desc['rooms']):
        rseed = desc['seed'] * 1000 + j
        mode = ('full', 'partial', 'windows', 'axis', 'unlinkable', 'chain', 'full', 'windows', 'partial', 'axis', 'axis', 'chain')[j % 12]
        r = run_room(ctx, rseed, mode)
        tries = 0
        while r == 'skip' and tries < 30:
            tries += 1
            rseed += 7919
            r = run_room(ctx, rseed, mode)
        if isinstance(r, tuple) and mode in ('partial', 'windows', 'chain'):
            ctx.count('mon.rooms_solved_again_with_the_samples_in_another_order')
            run_room(ctx, rseed, mode, order=('reversed', 'rotated')[(j + rseed) % 2])
        if isinstance(r, tuple):
            worst = (max(worst[0], r[0]), max(worst[1], r[1]))
            first = first or {'room_seed': rseed, 'mode': mode, 'n_bs': r[2], 'n_samples': r[3],
                              'translation_error_m': r[0], 'rotation_error_rad': r[1]}
    # the known poor-initial-estimate finding occurs in about 1 of 3000 rooms; three or more in one batch of 16 rooms is
    # not that finding any more
    # (tidy axis-aligned rooms hit the finding far more often, about one in seven: they are judged on their rate over the
    # whole run, see post_check)
    nk = ctx.counters.get('mon.other_rooms_hit_by_the_known_finding', 0) - known_before
    if nk >= 3:
        ctx.violate('lh:initial-estimate-failures-far-above-the-known-rate', {'failures_in_batch_of_16_rooms': nk, 'batch_seed': desc['seed']})
    ctx.sample({'first_room': first, 'worst_translation_error_m_in_batch': worst[0],
                'worst_rotation_error_rad_in_batch': worst[1]})
