"""C20 - link URIs select the right driver and parse to the right radio settings.

Reference URI parser vs RadioDriver.parse_uri; settings applied to a fake USB dongle by connect;
scan_interface over a fake radio; scheme dispatch over all driver classes with the hardware /
network layers replaced by fakes; Crazyflie.open_link on bad URIs.
"""
import random

from vf import core, harness

PROPERTY = 'C20'
LEVEL = 'exploration'
RULE = ('radio URIs: dongle ids 0..9 and serial numbers, channels 0..125, rates {250K,1M,2M}, addresses of 1..10 hex digits in '
        'either case, optional rate_limit and other query options, every prefix of omitted trailing fields; malformed '
        'variants; scanning with and without an address over peers on chosen channels/rates; every scheme (radio, usb, '
        'serial, tcp, udp, prrt, unknown, empty, malformed) against driver lists with and without the optional drivers; '
        'open_link on unusable URIs followed by a healthy connect. distinct_nontrivial = distinct URIs evaluated.')
ASSUMPTIONS = ['hardware and network layers are replaced by fakes (fake Crazyradio USB device, empty Crazyflie-USB list, fake '
               'socket / serial modules); an audit hook turns any real socket.connect into a harness error',
               '"claims a URI" = connect() does not raise WrongUriType']
REQUIRED = ['mon.parse_uri', 'mon.malformed', 'mon.settings_applied', 'mon.scan_results', 'mon.scheme_dispatch', 'mon.open_link_bad',
            'mon.serial_dongle_ids', 'mon.scans_of_address_zero', 'mon.scheme_dispatch_after_a_second_init_drivers_call',
            'mon.malformed_uris_of_a_known_scheme_dispatched', 'mon.connects_with_a_dongle_without_serial_number_plugged_in']
DESC_TIMEOUT = 900
RATES = {'250K': 0, '1M': 1, '2M': 2}
_guard = {'installed': False, 'hits': []}


def _audit(event, args):
    if event in ('socket.connect', 'socket.sendto', 'socket.bind'):
        _guard['hits'].append((event, repr(args[1:])[:80]))


def worker_init():
    if not _guard['installed']:
        import sys
        sys.addaudithook(_audit)
        _guard['installed'] = True


def cases(tier, seed):
    n = 24 if tier == 'quick' else 80
    out = [{'part': 'parse', 'seed': seed * 1009 + i, 'n': 1500} for i in range(n)]
    out += [{'part': 'connect', 'seed': seed * 1009 + i, 'n': 10} for i in range(n)]
    out += [{'part': 'scan', 'seed': seed * 1009 + i, 'n': 5} for i in range(max(2, n // 2))]
    out += [{'part': 'dispatch', 'seed': seed * 1009 + i} for i in range(max(2, n // 4))]
    out += [{'part': 'openlink', 'seed': seed * 1009 + i} for i in range(max(2, n // 4))]
    return out


def gen_radio_uri(rnd, serials):
    """Returns (uri, expected tuple or None when it must not parse)."""
    if rnd.random() < 0.25:
        ser = rnd.choice(serials)
        dongle = ser if rnd.random() < 0.5 else ser.lower()
        devid = serials.index(ser)
    else:
        devid = rnd.choice((0, 1, 9, rnd.randrange(10)))
        dongle = str(devid)
    chan = rnd.choice((0, 2, 80, 125, rnd.randrange(126)))
    rate = rnd.choice(list(RATES))
    nd = rnd.choice((1, 2, 5, 9, 10, 10, 10, rnd.randint(1, 10)))
    addr_s = ''.join(rnd.choice('0123456789abcdefABCDEF') for _ in range(nd))
    depth = rnd.choice((0, 1, 2, 3, 3, 3))
    uri = 'radio://' + dongle
    exp_chan, exp_rate, exp_addr = 2, 2, (0xE7,) * 5
    if depth >= 1:
        uri += '/%d' % chan
        exp_chan = chan
    if depth >= 2:
        uri += '/' + rate
        exp_rate = RATES[rate]
    if depth >= 3:
        uri += '/' + addr_s
        a = addr_s.rjust(10, '0')
        exp_addr = tuple(int(a[i:i + 2], 16) for i in range(0, 10, 2))
    rl = None
    q = []
    if rnd.random() < 0.3:
        rl = rnd.choice((1, 100, 500, rnd.randint(1, 2000)))
        q.append('rate_limit=%d' % rl)
    if rnd.random() < 0.3:
        q.append(rnd.choice(('safelink=0', 'safelink=1', 'autoping=0', 'foo=bar')))
    rnd.shuffle(q)
    if q:
        uri += '?' + '&'.join(q)
    return uri, (devid, exp_chan, exp_rate, exp_addr, rl)


def run_parse(desc, ctx):
    import cflib.drivers.crazyradio as cr
    from cflib.crtp.radiodriver import RadioDriver
    from cflib.crtp.exceptions import WrongUriType
    rnd = random.Random(desc['seed'])
    serials = ['E7E7E7E701', 'ABCDEF0123', '0123456789', 'RADIO00003', '9876543210']
    old = cr.get_serials
    cr.get_serials = lambda: tuple(serials)
    first = None
    try:
        for _ in range(desc['n']):
            uri, exp = gen_radio_uri(rnd, serials)
            ctx.evals()
            ctx.count('mon.parse_uri')
            ctx.nontrivial(uri)
            if not uri[8:9].isdigit():
                ctx.count('mon.serial_dongle_ids')
            try:
                got = RadioDriver.parse_uri(uri)
            except Exception as e:  # noqa
                ctx.violate('uri:well-formed-radio-uri-rejected', {'uri': uri, 'error': repr(e)[:200]})
                continue
            g = (got[0], got[1], got[2], tuple(got[3]), got[4])
            if g != exp:
                field = next(n for n, a, b in zip(('dongle', 'channel', 'datarate', 'address', 'rate_limit'), g, exp) if a != b)
                ctx.violate('uri:parsed-%s-differs' % field, {'uri': uri, 'got': g, 'want': exp})
            first = first or {'uri': uri, 'parsed': g}
        # malformed and foreign URIs
        for uri, kind in (('usb://0', 'foreign'), ('tcp://1.2.3.4:5', 'foreign'), ('', 'foreign'), ('radio:/0/80', 'foreign'),
                          ('Radio://0/80/2M', 'foreign'), ('radio://0/x/2M', 'bad'), ('radio://0/80/2M/GG', 'bad'),
                          ('radio://0/80/2M/E7E7E7E7E7E7', 'bad'), ('radio://NOSUCHSERIAL/80/2M', 'bad'),
                          ('radio://0/80/3M', 'bad'), ('radio://0/80/250k', 'bad'), ('radio://0/80/2Mx', 'bad'),
                          ('radio://0/80/2M/E7E7E7E7E7/1', 'bad')):
            ctx.evals()
            ctx.count('mon.malformed')
            try:
                RadioDriver.parse_uri(uri)
                ctx.violate('uri:malformed-uri-parsed', {'uri': uri})
            except WrongUriType:
                if kind != 'foreign':
                    ctx.violate('uri:malformed-radio-uri-reported-as-foreign-scheme', {'uri': uri})
            except Exception:
                if kind == 'foreign':
                    ctx.violate('uri:foreign-scheme-not-reported-as-WrongUriType', {'uri': uri})
    finally:
        cr.get_serials = old
    ctx.sample(first)


def run_connect(desc, ctx):
    """connect applies exactly the parsed settings to the dongle."""
    harness.init()
    from vf import detsched as ds, radiosim
    import cflib.crtp.radiodriver as rd
    import cflib.drivers.crazyradio as cr
    rnd = random.Random(desc['seed'])
    for it in range(desc['n']):
        serials = ['E7E7E7E701', '0123456789', 'ABCDEF0123']
        uri, exp = gen_radio_uri(rnd, serials)
        devs = [radiosim.FakeUsbRadio(serial=serials[i] if i < 3 else 'X%09d' % i) for i in range(10)]
        peer = radiosim.Peer()
        devs[exp[0]].peers[(exp[1], exp[2], exp[3])] = peer
        # one of the other dongles reports no serial number (old firmware), often one enumerated before the selected one
        if rnd.random() < 0.6:
            others = [j for j in range(10) if j != exp[0]]
            j = min(others) if rnd.random() < 0.6 else rnd.choice(others)
            devs[j].serial_number = rnd.choice((None, ''))
            ctx.count('mon.connects_with_a_dongle_without_serial_number_plugged_in')
        ob = {'err': []}
        old_find = cr._find_devices

        def fn(s):
            cr._find_devices = lambda serial=None: list(devs)
            rd.RadioManager._radios = []
            rd.RadioManager._lock = ds.Semaphore(1)
            drv = rd.RadioDriver()
            drv.connect(uri, None, lambda m: ob['err'].append(m))
            s.sleep(0.05)
            ob['rate_limit'] = drv.rate_limit
            drv.close()
        try:
            _, abort, sch = harness.sched_case(fn, seed=desc['seed'] + it, policy='random', horizon=600.0)
        finally:
            cr._find_devices = old_find
        ctx.evals()
        ctx.count('mon.settings_applied')
        ctx.nontrivial(('connect', uri))
        dev = devs[exp[0]]
        data_tx = [e for e in dev.log]
        bad = None
        if abort is not None or sch.deaths:
            bad = 'connect-hang-or-thread-death'
        elif not data_tx:
            bad = 'nothing-transmitted-on-the-selected-dongle'
        elif any(e[0] != (exp[1], exp[2], exp[3]) for e in data_tx):
            bad = 'transmitted-with-settings-other-than-the-parsed-ones'
        elif any(d.log for i, d in enumerate(devs) if i != exp[0]):
            bad = 'another-dongle-used'
        elif ob.get('rate_limit') != exp[4]:
            bad = 'rate-limit-not-applied'
        elif len(peer.accepted) == 0:
            bad = 'peer-on-the-parsed-settings-never-reached'
        if bad:
            ctx.violate('uri:connect:' + bad, {'uri': uri, 'expected': exp, 'used': sorted({e[0] for e in data_tx})[:3],
                                               'abort': str(abort), 'deaths': [d[1] for d in sch.deaths][:2]})
    ctx.sample({'uri': uri, 'dongle': exp[0], 'settings_seen_by_dongle': (dev.channel, dev.datarate, dev.address)})


def run_scan(desc, ctx):
    harness.init()
    from vf import detsched as ds, radiosim
    import cflib.crtp.radiodriver as rd
    import cflib.drivers.crazyradio as cr
    import contextlib
    import io
    rnd = random.Random(desc['seed'])
    for it in range(desc['n']):
        choices = (None, 0xE7E7E7E7E7, 0, 0xE7E7E7E701, 0x0000000001, None, 0xFF00000000, rnd.getrandbits(40), 0x00000000FF, rnd.getrandbits(12))
        address = choices[(desc['seed'] + it) % len(choices)]
        if address == 0:
            ctx.count('mon.scans_of_address_zero')
        a = address if address is not None else 0xE7E7E7E7E7
        addr_t = tuple((a >> (8 * (4 - i))) & 0xFF for i in range(5))
        dev = radiosim.FakeUsbRadio()
        present = set()
        for _ in range(rnd.randint(0, 5)):
            key = (rnd.randrange(126), rnd.choice((0, 1, 2)), addr_t)
            dev.peers[key] = radiosim.Peer()
            present.add((key[0], key[1]))
        # a decoy on another address must not be reported
        decoy = (rnd.randrange(126), 2, tuple((b + 1) & 0xFF for b in addr_t))
        dev.peers[decoy] = radiosim.Peer()
        ob = {}
        old_find, old_ser = cr._find_devices, cr.get_serials

        def fn(s):
            cr._find_devices = lambda serial=None: [dev]
            cr.get_serials = lambda: ('0123456789',)
            rd.RadioManager._radios = []
            rd.RadioManager._lock = ds.Semaphore(1)
            with contextlib.redirect_stdout(io.StringIO()):
                ob['found'] = rd.RadioDriver().scan_interface(address)
        try:
            _, abort, sch = harness.sched_case(fn, seed=desc['seed'] + it, policy='rtb', horizon=3000.0, max_steps=8_000_000)
        finally:
            cr._find_devices, cr.get_serials = old_find, old_ser
        ctx.evals()
        if abort is not None or sch.deaths:
            ctx.violate('uri:scan:hang-or-thread-death', {'abort': str(abort), 'deaths': [d[1] for d in sch.deaths][:2]})
            continue
        got = set()
        for entry in ob.get('found', []):
            uri = entry[0]
            ctx.count('mon.scan_results')
            ctx.nontrivial(('scan', uri))
            try:
                p = rd.RadioDriver.parse_uri(uri)
            except Exception as e:  # noqa
                ctx.violate('uri:scan:reported-uri-does-not-parse', {'uri': uri, 'error': repr(e)})
                continue
            if tuple(p[3]) != addr_t:
                ctx.violate('uri:scan:reported-uri-parses-to-another-address', {'uri': uri, 'parsed': tuple(p[3]), 'scanned': addr_t})
            got.add((p[1], p[2]))
        if got != present:
            ctx.violate('uri:scan:found-set-differs-from-present-crazyflies', {'address': hex(a), 'found': sorted(got),
                                                                              'present': sorted(present)})
    ctx.sample({'scanned_address': hex(a), 'present': sorted(present), 'found': [e[0] for e in ob.get('found', [])][:5]})


def run_dispatch(desc, ctx):
    """Every scheme is claimed by exactly one driver class."""
    harness.init()
    worker_init()
    import types
    from vf import detsched as ds, radiosim
    import cflib.crtp as crtp
    import cflib.crtp.radiodriver as rd
    import cflib.crtp.serialdriver as sd
    import cflib.crtp.tcpdriver  # noqa
    import cflib.crtp.udpdriver as ud
    import cflib.cpx.transports as tr
    import cflib.drivers.cfusb as cfusb
    import cflib.drivers.crazyradio as cr
    from cflib.crtp.exceptions import WrongUriType
    import contextlib
    import io
    from vf.checks.c18 import FakeSerial, FakeSocketModule, LiveSocket
    rnd = random.Random(desc['seed'])
    uris = {
        'radio': ['radio://0/80/2M/E7E7E7E7E7', 'radio://0', 'radio://0/10/250K?rate_limit=100'] +
                 ['radio://%d/%d/2M' % (d, rnd.randrange(126)) for d in range(10)],
        'usb': ['usb://0', 'usb://3'],
        'serial': ['serial://ttyFAKE0'],
        'tcp': ['tcp://192.168.4.1:5000'],
        'udp': ['udp://127.0.0.1:7777'],
        'prrt': ['prrt://10.0.0.1:5000', 'prrt://10.0.0.1:5000/2000'],
        'none': ['', 'foo://0', 'radio', 'http://0/80/2M', 'usb:/0', 'radio:/0/80/2M', 'tcp//1.2.3.4:5', 'serial:ttyUSB0',
                 'Radio://0/80/2M', ' radio://0/80/2M', 'bogus://%d' % rnd.randrange(100)],
        # the beginning of a scheme's syntax with something wrong after it: no driver may come up for these
        'malformed': ['usb://0/80/2M/E7E7E7E7E7', 'usb://1x', 'usb://0?safelink=0', 'usb://2 ', 'usb://', 'usb://abc',
                      'usb://%d/' % rnd.randrange(4), 'radio://0x', 'radio://0/80/2M/E7E7E7E7E7/1', 'radio://0/80/3M', 'radio://0/80/2Mx'],
    }
    # the driver lists are what the library's own init_drivers() registers, for every history of calls an application makes
    histories = {
        'default': [{}],
        'with-serial': [{'enable_serial_driver': True}],
        'default-then-with-serial': [{}, {'enable_serial_driver': True}],
        'with-serial-then-default': [{'enable_serial_driver': True}, {}],
    }
    ob = {'claims': {}, 'gld': {}, 'up': {}}

    saved_classes = list(crtp.CLASSES)

    def fn(s):
        devs = [radiosim.FakeUsbRadio(serial='D%09d' % i) for i in range(10)]
        old = (cr._find_devices, cfusb._find_devices, tr.socket, ud.socket, getattr(tr, 'serial', None), getattr(sd, 'list_ports', None))
        cr._find_devices = lambda serial=None: list(devs)
        cfusb._find_devices = lambda: []
        # (a Crazyflie on USB is present, so that a USB URI that should not have been accepted does bring a driver up)
        import cflib.crtp.usbdriver as usbd

        class _FakeCfUsb:
            def __init__(self, device=None, devid=0):
                self.dev = object()
                self.devid = devid

            def set_crtp_to_usb(self, on):
                pass

            def close(self):
                pass

            def scan(self):
                return []

            def send_packet(self, d):
                pass

            def receive_packet(self):
                ds.v_sleep(0.01)
                return ()
        old_cfusb = usbd.CfUsb
        usbd.CfUsb = _FakeCfUsb
        fake_sock = FakeSocketModule(lambda: LiveSocket())
        tr.socket = fake_sock

        class UdpSock(LiveSocket):
            def sendto(self, data, addr):
                self.sent += bytes(data)
        ud.socket = FakeSocketModule(lambda: UdpSock())
        def mk_ser(d, b, timeout=None):
            ser = FakeSerial()
            ser.q.put(bytes([0xFF, 0x00]))
            return ser
        tr.serial = types.SimpleNamespace(Serial=mk_ser)
        sd.list_ports = types.SimpleNamespace(comports=lambda: [types.SimpleNamespace(name='ttyFAKE0', device='/dev/ttyFAKE0')])
        try:
            with contextlib.redirect_stdout(io.StringIO()):
                for lname, calls in histories.items():
                    crtp.CLASSES[:] = []
                    for kw in calls:
                        crtp.init_drivers(**kw)
                    classes = []
                    for c in crtp.CLASSES:
                        if c not in classes:
                            classes.append(c)
                    for scheme, us in uris.items():
                        for uri in us:
                            claimed = []
                            up = []
                            for cls in classes:
                                rd.RadioManager._radios = []
                                rd.RadioManager._lock = ds.Semaphore(1)
                                inst = cls()
                                try:
                                    inst.connect(uri, None, lambda m: None)
                                    claimed.append(cls.__name__)
                                    up.append(cls.__name__)
                                    try:
                                        inst.close()
                                    except Exception:
                                        pass
                                except WrongUriType:
                                    pass
                                except Exception:
                                    claimed.append(cls.__name__)
                            ob['claims'][(lname, scheme, uri)] = claimed
                            ob['up'][(lname, scheme, uri)] = up
                            rd.RadioManager._radios = []
                            rd.RadioManager._lock = ds.Semaphore(1)
                            try:
                                inst = crtp.get_link_driver(uri, None, lambda m: None)
                                ob['gld'][(lname, scheme, uri)] = inst is not None
                                if inst is not None:
                                    ob['up'][(lname, scheme, uri)] = ob['up'][(lname, scheme, uri)] + ['get_link_driver']
                                if inst is not None:
                                    try:
                                        inst.close()
                                    except Exception:
                                        pass
                            except Exception:
                                ob['gld'][(lname, scheme, uri)] = True
        finally:
            crtp.CLASSES[:] = saved_classes
            usbd.CfUsb = old_cfusb
            cr._find_devices, cfusb._find_devices, tr.socket, ud.socket = old[:4]
            if old[4] is None:
                del tr.serial
            else:
                tr.serial = old[4]
            if old[5] is None:
                del sd.list_ports
            else:
                sd.list_ports = old[5]
    _, abort, sch = harness.sched_case(fn, seed=desc['seed'], policy='rtb', horizon=3000.0)
    if abort is not None:
        ctx.violate('uri:dispatch:hang', {'abort': str(abort), 'threads': abort.table})
        return
    owner = {'radio': 'RadioDriver', 'usb': 'UsbDriver', 'serial': 'SerialDriver', 'tcp': 'TcpDriver', 'udp': 'UdpDriver', 'prrt': 'PrrtDriver'}
    for (lname, scheme, uri), claimed in ob['claims'].items():
        ctx.evals()
        ctx.count('mon.scheme_dispatch')
        ctx.nontrivial(('dispatch', lname, uri))
        if scheme == 'malformed':
            ctx.count('mon.malformed_uris_of_a_known_scheme_dispatched')
            if ob['up'].get((lname, scheme, uri)):
                ctx.violate('uri:dispatch:driver-came-up-for-a-malformed-uri', {'uri': uri, 'driver_list': lname,
                                                                               'brought_up_by': ob['up'][(lname, scheme, uri)]})
            continue
        if scheme == 'none' or (scheme == 'serial' and lname == 'default'):
            want = []
        else:
            want = [owner[scheme]]
        if claimed != want:
            ctx.violate('uri:dispatch:scheme-%s-claimed-by-%s' % (scheme, '+'.join(claimed) or 'nobody'),
                        {'uri': uri, 'driver_list': lname, 'claimed_by': claimed, 'expected': want})
        if lname.count('-then-'):
            ctx.count('mon.scheme_dispatch_after_a_second_init_drivers_call')
        if ob['gld'].get((lname, scheme, uri)) != bool(want):
            ctx.violate('uri:dispatch:get_link_driver-%s-for-scheme-%s' % ('found-a-driver' if not want else 'found-no-driver', scheme),
                        {'uri': uri, 'driver_list': lname, 'expected_owner': want})
    if _guard['hits']:
        ctx.inconclusive_('harness: real network access attempted: %r' % _guard['hits'][:2])
    ctx.sample({'schemes': sorted(uris), 'example': {'uri': 'tcp://192.168.4.1:5000', 'claimed_by': ob['claims'].get(('default', 'tcp', 'tcp://192.168.4.1:5000'))}})


def run_openlink(desc, ctx):
    """open_link on an unusable URI: connection_requested then exactly one connection_failed, nothing escapes, and the
    object can connect afterwards."""
    harness.init()
    from vf import detsched as ds, gen, simcf, simlink
    import cflib.crtp as crtp
    import cflib.crtp.radiodriver as rd
    import cflib.drivers.cfusb as cfusb
    import cflib.drivers.crazyradio as cr
    from cflib.crazyflie import Crazyflie
    rnd = random.Random(desc['seed'])
    bad = ['', 'foo://0', 'radio', 'http://x', 'radio://0/abc/2M', 'radio://0/80/2M/XYZ', 'usb://0', 'usb://x', 'radio://NOSERIAL/80/2M',
           'radio://7/80/2M', 'sim://missing', 'tcp//x', 'serial://nope', 'bogus://%d' % rnd.randrange(1000),
           'usb://1x', 'usb://2/80/2M/E7E7E7E7E7', 'usb://1?safelink=0', 'usb://3 ']
    prof = gen.profile(desc['seed'], 2, 2)
    dev = simcf.SimCF(prof)
    simlink.SIMS['sim://c20'] = simlink.LinkSpec(dev)
    res = []

    def fn(s):
        dev.now = lambda: s.now
        saved = list(crtp.CLASSES)
        old = (cr._find_devices, cfusb._find_devices, cr.get_serials)
        cr._find_devices = lambda serial=None: []
        cfusb._find_devices = lambda: []
        # (a Crazyflie on USB is present, so that a USB URI that should not have been accepted does bring a driver up)
        import cflib.crtp.usbdriver as usbd

        class _FakeCfUsb:
            def __init__(self, device=None, devid=0):
                self.dev = object() if devid >= 1 else None      # (no Crazyflie at usb://0)
                self.devid = devid

            def set_crtp_to_usb(self, on):
                pass

            def close(self):
                pass

            def scan(self):
                return []

            def send_packet(self, d):
                pass

            def receive_packet(self):
                ds.v_sleep(0.01)
                return ()
        old_cfusb = usbd.CfUsb
        usbd.CfUsb = _FakeCfUsb
        cr.get_serials = lambda: ()
        try:
            crtp.CLASSES[:] = [crtp.RadioDriver, crtp.UsbDriver, crtp.SerialDriver] + [c for c in saved if c.__name__ == 'SimLinkDriver']
            for uri in bad:
                rd.RadioManager._radios = []
                rd.RadioManager._lock = ds.Semaphore(1)
                cf = Crazyflie()
                rec = harness.Recorder(cf)
                esc = None
                try:
                    cf.open_link(uri)
                except Exception as e:  # noqa
                    esc = repr(e)[:200]
                s.sleep(1.0)
                first = list(rec.names())
                done = ds.Event()
                cf.fully_connected.add_callback(lambda u: done.set())
                cf.open_link('sim://c20')
                done.wait(60.0)
                res.append((uri, esc, first, list(rec.names())[len(first):]))
                cf.close_link()
        finally:
            crtp.CLASSES[:] = saved
            cr._find_devices, cfusb._find_devices, cr.get_serials = old
            usbd.CfUsb = old_cfusb
    _, abort, sch = harness.sched_case(fn, seed=desc['seed'], policy='random', horizon=5000.0)
    if abort is not None:
        ctx.violate('uri:open_link:hang', {'abort': str(abort), 'threads': abort.table, 'done': [r[0] for r in res]})
        return
    for (uri, esc, first, second) in res:
        ctx.evals()
        ctx.count('mon.open_link_bad')
        ctx.nontrivial(('openlink', uri))
        if esc is not None:
            ctx.violate('uri:open_link:exception-escaped', {'uri': uri, 'error': esc})
        elif first != ['connection_requested', 'connection_failed']:
            ctx.violate('uri:open_link:bad-uri-not-reported-as-one-connection_failed', {'uri': uri, 'callbacks': first})
        elif second[:4] != ['connection_requested', 'link_established', 'connected', 'fully_connected']:
            ctx.violate('uri:open_link:object-unusable-after-failed-open', {'uri': uri, 'callbacks': second})
    ctx.sample({'bad_uris': len(bad), 'example': res[0][:3] if res else None})


def run(desc, ctx):
    core.setup_path()
    globals()['run_' + desc['part']](desc, ctx)
