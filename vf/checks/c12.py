"""C12 - flashing writes exactly the image, nowhere else.

A simulated bootloader target (RAM buffer + flash array, geometry reported through the real
_update_info parse) sits behind a fake link assigned to Cloader.link; the real
Bootloader._internal_flash drives it.  Monitors: every packet to the target, the buffer and flash
images, exceptions.
"""
import io
import random
import struct
import sys

from vf import core

PROPERTY = 'C12'
LEVEL = 'fault_enumeration'
RULE = ('geometry (page size in {8,16,25,32,50,64,1024}, buffer pages 1..4/10, flash pages <= 24 or realistic 128/1024, '
        'every start page incl. override) x image length (1 .. three buffer-fulls + 1, every page and buffer multiple +-1) x '
        'both targets; flash-write reply scripts: all combinations of {answer, drop, negative} over the first attempts of the '
        'first three write commands; whole packages (zip with STM32 firmware, nRF51 firmware and/or nRF51 bootloader+softdevice) '
        'through start_bootloader() + flash() on a two-target device whose nRF51 restarts into a bootloader reporting the new '
        'soft device start page. distinct_nontrivial = distinct (geometry, start page, image length, reply script).')
ASSUMPTIONS = ['bootloader protocol: 0x10 info, 0x12 mapping, 0x14 load buffer (page,u16 offset), 0x18 write flash '
               '(buffer page, flash page, count) answered by (target, 0x18, done, error)',
               'a retransmitted write-flash command re-executes the same copy (idempotent)']
REQUIRED = ['mon.reply_scripts_with_a_refusal_that_carries_no_error_code', 'mon.flashes_completed', 'mon.images_compared', 'mon.load_buffer_packets', 'mon.too_large_refused',
            'mon.reply_scripts', 'mon.aborted_after_failure', 'mon.page_override', 'mon.exact_multiples',
            'mon.flashes_with_progress_callback', 'mon.late_answer_then_failing_write',
            'mon.second_flash_with_the_same_bootloader', 'mon.flash_at_the_start_page_after_one_at_an_override_page', 'mon.unanswered_write_on_a_busy_downlink',
            'mon.two_target_sessions_with_duplicated_info_answers', 'mon.packages_flashed',
            'mon.packages_that_update_the_soft_device', 'mon.packages_with_a_bootloader_the_device_already_runs']
EXHAUSTIVE = {'quick': False, 'thorough': False}
DESC_TIMEOUT = 1200


def cases(tier, seed):
    out = []
    geos = []
    for ps in (8, 16, 25, 32, 50):
        for bp in (1, 2, 3, 4):
            for fp in (6, 13, 24):
                geos.append((ps, bp, fp))
    rnd = random.Random(seed * 9176 + 3)
    rnd.shuffle(geos)
    take = geos[:10] if tier == 'quick' else geos
    for (ps, bp, fp) in take:
        out.append({'ps': ps, 'bp': bp, 'fp': fp, 'mode': 'lengths', 'seed': seed})
    for g in ((1024, 10, 1024), (1024, 1, 128), (64, 4, 40)):
        out.append({'ps': g[0], 'bp': g[1], 'fp': g[2], 'mode': 'realistic', 'seed': seed})
    for i in range(8 if tier == 'quick' else 48):
        out.append({'ps': 0, 'bp': 0, 'fp': 0, 'mode': 'package', 'seed': seed * 1000 + i, 'n': 10})
    nf = 12 if tier == 'quick' else 40
    for i in range(nf):
        ps, bp, fp = rnd.choice(geos)
        out.append({'ps': ps, 'bp': bp, 'fp': fp, 'mode': 'faults', 'seed': seed * 1000 + i})
    return out


class Target:
    """Simulated bootloader target."""

    def __init__(self, tid, ps, bp, fp, sp, script=None):
        self.tid, self.ps, self.bp, self.fp, self.sp = tid, ps, bp, fp, sp
        self.buffer = bytearray(b'\xEE' * (ps * bp))
        self.flash = bytearray(b'\xFF' * (ps * fp))
        self.flash0 = bytes(self.flash)
        self.log = []                 # ('load', page, off, n) / ('write', bufpage, flashpage, count, action)
        self.written = set()          # flash pages touched
        self.script = script or {}    # (write command index, attempt index) -> 'drop' | 'neg'
        self.wcmds = []               # distinct write commands in order
        self.attempts = {}
        self.out = []
        self.held = []
        self.bad = []

    def handle(self, header, data):
        if header != 0xFF or len(data) < 2 or data[0] != self.tid:
            self.bad.append(('unexpected packet', header, bytes(data)))
            return
        cmd = data[1]
        if cmd == 0x10:
            rep = struct.pack('<BBHHHH', self.tid, 0x10, self.ps, self.bp, self.fp, self.sp) + bytes(range(12)) + bytes([0x10])
            self.out.append(rep)
        elif cmd == 0x12:
            self.out.append(bytes([self.tid, 0x12, 4, 16, 1, 64, 7, 128]))
        elif cmd == 0x14:
            page, off = struct.unpack('<HH', bytes(data[2:6]))
            body = bytes(data[6:])
            self.log.append(('load', page, off, len(body)))
            if 1 + len(data) > 32:
                self.bad.append(('load-buffer frame larger than 32 bytes', len(data) + 1))
            if page >= self.bp or off + len(body) > self.ps:
                self.bad.append(('load outside the buffer', page, off, len(body)))
                return
            a = page * self.ps + off
            self.buffer[a:a + len(body)] = body
        elif cmd == 0x18:
            bpage, fpage, count = struct.unpack('<HHH', bytes(data[2:8]))
            key = (bpage, fpage, count)
            if not self.wcmds or self.wcmds[-1] != key:
                self.wcmds.append(key)
            # an answer that was held back (action 'late') reaches the host now, ahead of the answer to this request
            self.out.extend(self.held)
            del self.held[:]
            ci = len(self.wcmds) - 1
            at = self.attempts.get(ci, 0)
            self.attempts[ci] = at + 1
            action = self.script.get((ci, at), 'ok')
            self.log.append(('write', bpage, fpage, count, action))
            if action == 'foreign':
                # the command is lost, but the downlink is not silent: the other target answers something of its own
                other = 0xFE if self.tid == 0xFF else 0xFF
                self.out.append(bytes([other, 0x18, 1, 0]))
                return
            if action == 'drop_request':
                return
            if action in ('neg', 'neg0'):
                # refused: done flag 0 (the error byte says why - or nothing: 0)
                self.out.append(bytes([self.tid, 0x18, 0, 5 if action == 'neg' else 0]))
                return
            if fpage + count > self.fp or bpage + count > self.bp:
                self.bad.append(('write beyond flash or buffer', bpage, fpage, count))
                self.out.append(bytes([self.tid, 0x18, 0, 1]))
                return
            for k in range(count):
                self.flash[(fpage + k) * self.ps:(fpage + k + 1) * self.ps] = \
                    self.buffer[(bpage + k) * self.ps:(bpage + k + 1) * self.ps]
                self.written.add(fpage + k)
            if action == 'drop':
                return
            if action == 'late':
                # written, but the answer arrives after the host's receive window (slow page erase)
                self.held.append(bytes([self.tid, 0x18, 1, 0]))
                return
            self.out.append(bytes([self.tid, 0x18, 1, 0]))
        else:
            self.bad.append(('unknown command', cmd))


class Link:
    def __init__(self, target):
        self.t = target
        self.held = None

    def _flush(self):
        # like the radio driver, the link takes the packet OBJECT into a one-place queue and serialises it when the radio
        # gets to it - here: when the next packet is handed over or an answer is asked for
        if self.held is not None:
            pk, self.held = self.held, None
            self.t.handle(pk.header, bytes(pk.data))

    def send_packet(self, pk):
        self._flush()
        self.held = pk
        return True

    def receive_packet(self, wait=0):
        from cflib.crtp.crtpstack import CRTPPacket
        self._flush()
        if self.t.out:
            d = self.t.out.pop(0)
            pk = CRTPPacket(0xFF, list(d))
            return pk
        return None

    def close(self):
        pass


def flash_once(ctx, tid, ps, bp, fp, sp, length, override, script, rnd, label):
    from cflib.bootloader import Bootloader, FlashArtifact
    from cflib.bootloader import Target as ArtTarget
    tgt = Target(tid, ps, bp, fp, sp, script)
    bl = Bootloader('radio://0/0/2M')
    bl._cload.link = Link(tgt)
    if not bl._cload._update_info(tid):
        ctx.violate('flash:info-not-parsed', {'geometry': (ps, bp, fp, sp)})
        return
    info = bl._cload.targets[tid]
    if (info.page_size, info.buffer_pages, info.flash_pages, info.start_page) != (ps, bp, fp, sp):
        ctx.violate('flash:geometry-parsed-wrongly', {'got': (info.page_size, info.buffer_pages, info.flash_pages, info.start_page),
                                                     'want': (ps, bp, fp, sp)})
        return
    image = bytes(rnd.getrandbits(8) for _ in range(length))
    # the way a UI drives it: progress and termination callbacks installed (half of the cases)
    if (length + ps + bp + fp + (override or 0) + len(script or ())) % 2 == 0:
        progress = []
        bl.progress_cb = lambda msg, pct: progress.append((msg, pct))
        bl.terminate_flashing_cb = lambda: False
        ctx.count('mon.flashes_with_progress_callback')
    art = FlashArtifact(image, ArtTarget('cf2', 'stm32' if tid == 0xFF else 'nrf51', 'fw', [], []), None)
    start = sp if override is None else override
    tgt.log.clear()
    exc = None
    old = sys.stdout
    sys.stdout = io.StringIO()
    try:
        bl._internal_flash(art, page_override=override)
    except Exception as e:  # noqa
        exc = e
    finally:
        sys.stdout = old
    ctx.evals()
    ctx.nontrivial((ps, bp, fp, sp, override, length, tuple(sorted(script.items())) if script else ()))
    rp = {'ps': ps, 'bp': bp, 'fp': fp, 'mode': 'single', 'tid': tid, 'sp': sp, 'length': length, 'override': override,
          'script': [[k[0], k[1], v] for k, v in (script or {}).items()], 'seed': 0}
    info_d = {'geometry': {'page_size': ps, 'buffer_pages': bp, 'flash_pages': fp, 'start_page': sp}, 'override': override,
              'image_length': length, 'target': tid, 'script': rp['script'], 'case': label}
    fits = length <= (fp - start) * ps
    loads = [e for e in tgt.log if e[0] == 'load']
    writes = [e for e in tgt.log if e[0] == 'write']
    ctx.count('mon.load_buffer_packets', len(loads))
    if tgt.bad:
        ctx.violate('flash:' + str(tgt.bad[0][0]).replace(' ', '-'), dict(info_d, detail=[str(b) for b in tgt.bad[:3]]), replay=rp)
        return
    if not fits:
        ctx.count('mon.too_large_refused')
        if exc is None or tgt.log:
            ctx.violate('flash:image-that-does-not-fit-not-refused-before-writing',
                        dict(info_d, raised=repr(exc), packets=len(tgt.log)), replay=rp)
        return
    failing = script and any(v in ('neg',) for v in script.values()) or False
    # which write command (if any) can never succeed under this script?
    fatal = None
    if script:
        by_cmd = {}
        for (ci, at), v in script.items():
            by_cmd.setdefault(ci, {})[at] = v
        for ci in sorted(by_cmd):
            acts = [by_cmd[ci].get(a, 'ok') for a in range(6)]
            # first non-drop action decides
            outcome = 'lost'
            for a in acts:
                if a in ('ok',):
                    outcome = 'ok'
                    break
                if a in ('neg', 'neg0'):
                    outcome = 'neg'
                    break
            if outcome != 'ok':
                fatal = (ci, outcome)
                break
    del failing
    npages = (length - 1) // ps + 1
    ncmds_total = (npages + bp - 1) // bp
    # per write command at most 6 transmissions
    for ci, n in tgt.attempts.items():
        if n > 6:
            ctx.violate('flash:write-command-transmitted-more-than-6-times', dict(info_d, command=ci, transmissions=n), replay=rp)
    if fatal is not None and fatal[0] < ncmds_total:
        ctx.count('mon.aborted_after_failure')
        if exc is None:
            ctx.violate('flash:continued-after-failed-flash-write', dict(info_d, fatal=fatal), replay=rp)
            return
        # nothing after the failing command
        idx = [i for i, e in enumerate(tgt.log) if e[0] == 'write']
        cmd_seen = []
        last_fatal_log = None
        for i in idx:
            key = tgt.log[i][1:4]
            if not cmd_seen or cmd_seen[-1] != key:
                cmd_seen.append(key)
            if len(cmd_seen) - 1 == fatal[0]:
                last_fatal_log = i
        if last_fatal_log is not None and last_fatal_log != len(tgt.log) - 1:
            ctx.violate('flash:commands-sent-after-the-flashing-was-aborted',
                        dict(info_d, fatal=fatal, trailing=[str(e) for e in tgt.log[last_fatal_log + 1:][:4]]), replay=rp)
        # pages outside the image range untouched even on abort
        lo, hi = start, start + npages
        if any(p < lo or p >= hi for p in tgt.written):
            ctx.violate('flash:page-outside-image-range-written', dict(info_d, pages=sorted(tgt.written)), replay=rp)
        return
    if exc is not None:
        ctx.violate('flash:raised-although-every-command-was-answered:%s' % type(exc).__name__,
                    dict(info_d, error=repr(exc)[:200]), replay=rp)
        return
    ctx.count('mon.flashes_completed')
    ctx.count('mon.images_compared')
    if override is not None:
        ctx.count('mon.page_override')
    if length % ps == 0 or length % (ps * bp) == 0:
        ctx.count('mon.exact_multiples')
    lo, hi = start, start + npages
    if bytes(tgt.flash[lo * ps:lo * ps + length]) != image:
        diff = [i for i in range(length) if tgt.flash[lo * ps + i] != image[i]]
        ctx.violate('flash:flash-content-differs-from-image', dict(info_d, first_diff_offsets=diff[:6], pages_written=sorted(tgt.written)), replay=rp)
        return
    outside = [p for p in range(fp) if not (lo <= p < hi) and tgt.flash[p * ps:(p + 1) * ps] != tgt.flash0[p * ps:(p + 1) * ps]]
    if outside or any(p < lo or p >= hi for p in tgt.written):
        ctx.violate('flash:page-outside-image-range-written', dict(info_d, pages=sorted(tgt.written), changed=outside[:5]), replay=rp)
        return
    # load-buffer tiles cover each uploaded page exactly once (per buffer-full)
    cover = {}
    gen = 0
    for e in tgt.log:
        if e[0] == 'load':
            for b in range(e[2], e[2] + e[3]):
                k = (gen, e[1], b)
                cover[k] = cover.get(k, 0) + 1
        elif e[0] == 'write' and e[4] in ('ok',):
            gen += 1
    if any(v != 1 for v in cover.values()):
        ctx.violate('flash:buffer-byte-uploaded-more-than-once', dict(info_d, n=sum(1 for v in cover.values() if v != 1)), replay=rp)
    if len(cover) != length:
        ctx.violate('flash:uploaded-bytes-do-not-cover-the-image', dict(info_d, covered=len(cover)), replay=rp)
    # the same Bootloader object flashes a second, different image of another length (firmware, then a deck image...)
    if not script and length % 3 == 0:
        # (a flash to an override page - a staged bootloader - is followed by one to the target's own start page)
        override2 = override if (override is None or (length // 3) % 4 == 0) else None
        if override2 != override:
            ctx.count('mon.flash_at_the_start_page_after_one_at_an_override_page')
        start2 = lo2 = sp if override2 is None else override2
        length2 = max(1, min((fp - start2) * ps, (length * 7) // 5 + 1 if length % 2 else max(1, length // 2)))
        image2 = bytes((b ^ 0x5A) for b in rnd.randbytes(length2))
        tgt.flash[:] = tgt.flash0
        tgt.written.clear()
        tgt.log.clear()
        exc2 = None
        old = sys.stdout
        sys.stdout = io.StringIO()
        try:
            bl._internal_flash(FlashArtifact(image2, art.target, None), page_override=override2)
        except Exception as e:  # noqa
            exc2 = e
        finally:
            sys.stdout = old
        ctx.evals()
        ctx.count('mon.second_flash_with_the_same_bootloader')
        np2 = (length2 - 1) // ps + 1
        if exc2 is not None or tgt.bad or bytes(tgt.flash[lo2 * ps:lo2 * ps + length2]) != image2 or \
                any(p < lo2 or p >= lo2 + np2 for p in tgt.written):
            ctx.violate('flash:second-flash-with-the-same-object-wrong', dict(info_d, second_length=length2, raised=repr(exc2),
                                                                           bad=[str(b) for b in tgt.bad[:2]]), replay=rp)
    return (len(loads), len(writes))


class DualLink:
    """Both targets of a Crazyflie 2 behind one link; get-info answers may arrive more than once (the library re-sends
    the request when an answer is slow and nothing empties the downlink queue in between)."""

    def __init__(self, targets, dup_info):
        self.targets = targets
        self.dup_info = dup_info        # tid -> number of copies of the get-info answer
        self.out = []
        self.bad = []

    def send_packet(self, pk):
        d = bytes(pk.data)
        t = self.targets.get(d[0]) if d else None
        if t is None:
            self.bad.append(('packet for no target', d[:4]))
            return True
        n0 = len(t.out)
        t.handle(pk.header, d)
        new = t.out[n0:]
        del t.out[n0:]
        if len(d) > 1 and d[1] == 0x10:
            new = new * self.dup_info.get(d[0], 1)
        self.out.extend(new)
        return True

    def receive_packet(self, wait=0):
        from cflib.crtp.crtpstack import CRTPPacket
        if self.out:
            return CRTPPacket(0xFF, list(self.out.pop(0)))
        return None

    def close(self):
        pass


def two_targets(ctx, rnd, label):
    """Geometry of each target is taken from that target's own answer, whatever else is queued on the downlink; the
    image then lands in the right target at its own start page."""
    from cflib.bootloader import Bootloader, FlashArtifact
    from cflib.bootloader import Target as ArtTarget
    geo = {0xFF: (1024, 10, rnd.choice((128, 1024)), rnd.choice((4, 16))), 0xFE: (1024, 1, rnd.choice((64, 232)), rnd.choice((8, 40)))}
    tg = {tid: Target(tid, *g) for tid, g in geo.items()}
    first, second = rnd.choice(((0xFF, 0xFE), (0xFE, 0xFF)))
    link = DualLink(tg, {first: rnd.choice((2, 3)), second: rnd.choice((1, 2))})
    bl = Bootloader('radio://0/0/2M')
    bl._cload.link = link
    ctx.evals()
    ctx.count('mon.two_target_sessions_with_duplicated_info_answers')
    info = {'case': label, 'geometries': {hex(k): v for k, v in geo.items()}, 'queried_first': hex(first)}
    try:
        ok1 = bl._cload._update_info(first)
        ok2 = bl._cload._update_info(second)
    except Exception as e:  # noqa
        ctx.violate('flash:info-exchange-raised:%s' % type(e).__name__, dict(info, error=repr(e)[:200]))
        return
    for tid in (first, second):
        t = bl._cload.targets.get(tid)
        got = None if t is None else (t.page_size, t.buffer_pages, t.flash_pages, t.start_page)
        if got != geo[tid]:
            ctx.violate('flash:geometry-parsed-wrongly', dict(info, target=hex(tid), got=got, want=geo[tid], ok=(ok1, ok2)))
            return
    # flash the target queried second
    ps, bp, fp, sp = geo[second]
    length = rnd.randint(1, 3 * ps)
    image = rnd.randbytes(length)
    link.out.clear()
    for t in tg.values():
        t.log.clear()
    old = sys.stdout
    sys.stdout = io.StringIO()
    exc = None
    try:
        bl._internal_flash(FlashArtifact(image, ArtTarget('cf2', 'stm32' if second == 0xFF else 'nrf51', 'fw', [], []), None))
    except Exception as e:  # noqa
        exc = e
    finally:
        sys.stdout = old
    tt, other = tg[second], tg[first]
    npages = (length - 1) // ps + 1
    if exc is not None or tt.bad or link.bad or bytes(tt.flash[sp * ps:sp * ps + length]) != image or \
            any(p < sp or p >= sp + npages for p in tt.written) or other.written or other.log:
        ctx.violate('flash:wrong-target-or-pages-with-two-targets', dict(info, flashed=hex(second), raised=repr(exc), pages=sorted(tt.written),
                                                                       other_target_touched=bool(other.written or other.log),
                                                                       bad=[str(b) for b in (tt.bad + link.bad)[:2]]))


# ------------------------------------------------------------------------------------------ whole packages
class PkgTarget(Target):
    """Target of a Crazyflie 2 in bootloader mode that also answers the reset commands."""

    def __init__(self, dev, *a):
        Target.__init__(self, *a)
        self.dev = dev

    version = None        # (major, minor, patch) reported by newer bootloaders

    def handle(self, header, data):
        if header == 0xFF and len(data) >= 2 and data[0] == self.tid and data[1] == 0x10 and self.version is not None:
            self.out.append(struct.pack('<BBHHHH', self.tid, 0x10, self.ps, self.bp, self.fp, self.sp) + bytes(range(12)) + bytes([0x10]) +
                            struct.pack('<HBB', *self.version))
            return
        if header == 0xFF and len(data) >= 2 and data[0] == self.tid and data[1] == 0xFF:
            self.out.append(bytes([self.tid, 0xFF, 0x11, 0x22, 0x33, 0x44, 0x55, 0x66]))
            return
        if header == 0xFF and len(data) >= 2 and data[0] == self.tid and data[1] == 0xF0:
            self.dev.reset(self, data[2] if len(data) > 2 else None)
            return
        Target.handle(self, header, data)


class PkgDevice:
    """Both targets; a reset of the nRF51 installs a staged bootloader+softdevice image, after which the bootloader
    reports the start page of the new soft device."""

    def __init__(self, stm_geo, nrf_geo, staged, new_sp):
        self.t = {0xFF: PkgTarget(self, 0xFF, *stm_geo), 0xFE: PkgTarget(self, 0xFE, *nrf_geo)}
        self.staged, self.new_sp = staged, new_sp
        self.epoch = 0
        self.epochs = []          # per finished epoch: {tid: pages written}
        self.bad = []
        self.links = []

    def reset(self, t, mode):
        if t.tid != 0xFE:
            return
        n = self.t[0xFE]
        self.epochs.append({tid: set(x.written) for tid, x in self.t.items()})
        for x in self.t.values():
            x.written.clear()
            del x.out[:]
        self.epoch += 1
        if self.staged is not None:
            page = n.fp - len(self.staged) // n.ps
            if bytes(n.flash[page * n.ps:page * n.ps + len(self.staged)]) == self.staged and n.sp != self.new_sp:
                n.sp = self.new_sp
                n.flash[0:n.sp * n.ps] = b'\x5D' * (n.sp * n.ps)        # the soft device
                n.flash[n.sp * n.ps:] = b'\xFF' * (len(n.flash) - n.sp * n.ps)
                self.installed = True


class PkgLink:
    def __init__(self, dev, uri):
        self.dev, self.uri = dev, uri.split('?')[0]
        self.closed = False
        dev.links.append(self)

    def scan_selected(self, uris):
        return (uris[0],)

    def send_packet(self, pk):
        d = bytes(pk.data)
        if self.closed:
            self.dev.bad.append(('packet sent on a closed link', d[:4].hex()))
            return True
        if 1 + len(d) > 32:
            self.dev.bad.append(('frame larger than 32 bytes', len(d) + 1))
        t = self.dev.t.get(d[0]) if d else None
        if t is not None:
            t.handle(pk.header, d)
        return True

    def receive_packet(self, wait=0):
        from cflib.crtp.crtpstack import CRTPPacket
        for t in self.dev.t.values():
            if t.out:
                return CRTPPacket(0xFF, list(t.out.pop(0)))
        return None

    def close(self):
        self.closed = True


def run_package(desc, ctx):
    """Bootloader.start_bootloader() + Bootloader.flash(<zip>) against both targets: every artifact of the package lands at
    the start page its target reports at that moment (the nRF51 is re-started into a new bootloader when the package
    updates the soft device), the staged bootloader+softdevice at the override page, and no other page is touched."""
    import json
    import os
    import tempfile
    import types
    import zipfile
    import cflib.bootloader as blmod
    import cflib.bootloader.cloader as clmod
    import cflib.crtp
    from cflib.bootloader import Bootloader
    rnd = random.Random(desc['seed'])
    clock = {'t': 0.0}
    fake_time = types.SimpleNamespace(time=lambda: clock['t'], sleep=lambda d: clock.__setitem__('t', clock['t'] + d))
    old = (blmod.time, clmod.time, cflib.crtp.get_link_driver)
    blmod.time = clmod.time = fake_time
    try:
        for it in range(desc['n']):
            old_sp, new_sp = rnd.choice(((88, 108), (108, 88), (88, 108)))
            sd_name = {88: 'sd-s110', 108: 'sd-s130'}
            update_sd = rnd.random() < 0.6
            # or: the package brings a bootloader+softdevice the device already runs (same soft device, same bootloader
            # release) - nothing of it is to be flashed
            uptodate = (not update_sd) and rnd.random() < 0.6
            stm_geo = (1024, rnd.choice((10, 4)), rnd.choice((1024, 128)), rnd.choice((16, 4)))
            nrf_geo = (1024, 1, rnd.choice((232, 256)), old_sp)
            sd_bl = rnd.randbytes(1024 * rnd.randint(1, 6)) if (update_sd or uptodate) else None
            dev = PkgDevice(stm_geo, nrf_geo, sd_bl if update_sd else None, new_sp)
            bl_release = (1, rnd.randint(0, 9), rnd.randint(0, 9))
            if uptodate:
                dev.t[0xFE].version = bl_release
                ctx.count('mon.packages_with_a_bootloader_the_device_already_runs')
            nrf_fw = rnd.randbytes(rnd.randint(1, 5 * 1024)) if rnd.random() < 0.85 else None
            stm_fw = rnd.randbytes(rnd.randint(1, 12 * 1024)) if rnd.random() < 0.7 else None
            if (nrf_fw is None and stm_fw is None) or (uptodate and nrf_fw is None):
                # (the library decides whether the soft device is current from what the nRF51 firmware of the package requires)
                nrf_fw = rnd.randbytes(rnd.randint(1, 3000))
            files = []
            if stm_fw is not None:
                files.append(('cf2.bin', stm_fw, {'platform': 'cf2', 'target': 'stm32', 'type': 'fw', 'release': '2025.02',
                                                   'repository': 'crazyflie-firmware'}))
            if nrf_fw is not None:
                files.append(('cf2_nrf.bin', nrf_fw, {'platform': 'cf2', 'target': 'nrf51', 'type': 'fw', 'release': '2025.02',
                                                       'repository': 'crazyflie2-nrf-firmware',
                                                       'requires': [sd_name[new_sp if update_sd else old_sp]]}))
            if sd_bl is not None:
                files.append(('sd_bl.bin', sd_bl, {'platform': 'cf2', 'target': 'nrf51', 'type': 'bootloader+softdevice',
                                                    'release': '%d.%d.%d' % bl_release, 'repository': 'crazyflie2-nrf-bootloader',
                                                    'provides': [sd_name[new_sp if update_sd else old_sp]]}))
            rnd.shuffle(files)
            tmp = tempfile.mkdtemp(prefix='vf_c12_')
            zpath = os.path.join(tmp, 'update.zip')
            with zipfile.ZipFile(zpath, 'w') as zf:
                man = {'version': 2, 'files': {}}
                for name, content, meta in files:
                    zf.writestr(name, content)
                    man['files'][name] = meta
                zf.writestr('manifest.json', json.dumps(man))
            cflib.crtp.get_link_driver = lambda uri, *a, **k: PkgLink(dev, uri)
            warm = rnd.random() < 0.5
            exc = None
            out_old = sys.stdout
            sys.stdout = io.StringIO()
            try:
                bl = Bootloader('radio://0/80/2M/E7E7E7E7E7')
                if rnd.random() < 0.5:
                    bl.progress_cb = lambda m, p: None
                if not bl.start_bootloader(warm_boot=warm):
                    raise RuntimeError('bootloader did not start')
                # (with an empty target list a warm-booted Crazyflie would go on to its decks over a firmware link)
                bl.flash(zpath, [blmod.Target('cf2', 'stm32', 'fw', [], [])] if (warm or rnd.random() < 0.5) else [])
            except Exception as e:  # noqa
                import traceback
                exc = traceback.format_exc()[-500:]
            finally:
                sys.stdout = out_old
                os.remove(zpath)
                os.rmdir(tmp)
            ctx.evals()
            ctx.count('mon.packages_flashed')
            info = {'case': 'package', 'artifacts': [(n, len(c)) for n, c, _ in files], 'nrf51_start_page_before': old_sp,
                    'package_updates_soft_device': update_sd, 'nrf51_start_page_of_new_bootloader': new_sp if update_sd else old_sp,
                    'stm32_geometry': stm_geo, 'warm_boot': warm}
            rp = {'mode': 'package', 'seed': desc['seed'], 'n': it + 1, 'ps': 0, 'bp': 0, 'fp': 0}
            if exc is not None:
                ctx.violate('flash:package:raised', dict(info, error=exc), replay=rp)
                continue
            nrf, stm = dev.t[0xFE], dev.t[0xFF]
            dev.epochs.append({tid: set(x.written) for tid, x in dev.t.items()})
            # warm boot re-starts the nRF51 once before anything is flashed: drop the empty epochs in front
            ep = [e for e in dev.epochs]
            while len(ep) > 1 and not ep[0][0xFE] and not ep[0][0xFF] and (warm and len(ep) > (2 if update_sd else 1)):
                ep.pop(0)
            problems = [str(b) for b in (dev.bad + nrf.bad + stm.bad)[:3]]

            def pages(sp_, n_, ps_):
                return set(range(sp_, sp_ + (n_ - 1) // ps_ + 1))
            if update_sd:
                ctx.count('mon.packages_that_update_the_soft_device')
                if not getattr(dev, 'installed', False) or len(ep) != 2:
                    problems.append('the staged bootloader+softdevice was not installed by the reset (epochs %d)' % len(ep))
                else:
                    stage = nrf.fp - len(sd_bl) // 1024
                    want0 = {old_sp} | pages(stage, len(sd_bl), 1024)
                    if ep[0][0xFE] != want0:
                        problems.append('before the restart nRF51 pages %s written, expected %s' % (sorted(ep[0][0xFE]), sorted(want0)))
                    want1 = pages(new_sp, len(nrf_fw), 1024) if nrf_fw is not None else set()
                    if ep[1][0xFE] != want1:
                        problems.append('after the restart (start page %d) nRF51 pages %s written, expected %s'
                                        % (new_sp, sorted(ep[1][0xFE])[:8], sorted(want1)[:8]))
                        ctx.count('obs.nrf51_pages_differ_after_restart')
                    if nrf_fw is not None and bytes(nrf.flash[new_sp * 1024:new_sp * 1024 + len(nrf_fw)]) != nrf_fw:
                        problems.append('nRF51 firmware is not in flash at start page %d' % new_sp)
                    if any(b != 0x5D for b in nrf.flash[0:new_sp * 1024]):
                        problems.append('soft device region overwritten')
                stm_written = set().union(*[e[0xFF] for e in ep])
            else:
                want = pages(old_sp, len(nrf_fw), 1024) if nrf_fw is not None else set()
                got = set().union(*[e[0xFE] for e in ep])
                if got != want:
                    problems.append('nRF51 pages %s written, expected %s' % (sorted(got)[:8], sorted(want)[:8]))
                if nrf_fw is not None and bytes(nrf.flash[old_sp * 1024:old_sp * 1024 + len(nrf_fw)]) != nrf_fw:
                    problems.append('nRF51 firmware is not in flash at start page %d' % old_sp)
                stm_written = set().union(*[e[0xFF] for e in ep])
            wants = pages(stm_geo[3], len(stm_fw), 1024) if stm_fw is not None else set()
            if stm_written != wants:
                problems.append('STM32 pages %s written, expected %s' % (sorted(stm_written)[:8], sorted(wants)[:8]))
            if stm_fw is not None and bytes(stm.flash[stm_geo[3] * 1024:stm_geo[3] * 1024 + len(stm_fw)]) != stm_fw:
                problems.append('STM32 firmware is not in flash at its start page')
            ctx.count('mon.images_compared', len(files))
            ctx.nontrivial(('package', old_sp, new_sp, update_sd, tuple(len(c) for _, c, _ in files), stm_geo))
            if problems:
                ctx.violate('flash:package:artifact-not-at-the-start-page-its-target-reports', dict(info, problems=problems), replay=rp)
            if it == 0:
                ctx.sample(dict(info, epochs=[{hex(k): sorted(v)[:6] for k, v in e.items()} for e in ep]))
    finally:
        blmod.time, clmod.time, cflib.crtp.get_link_driver = old


def run(desc, ctx):
    core.setup_path()
    import logging
    logging.disable(logging.CRITICAL)
    ps, bp, fp = desc['ps'], desc['bp'], desc['fp']
    if desc['mode'] == 'package':
        run_package(desc, ctx)
        return
    rnd = random.Random(hash((ps, bp, fp, desc['seed'])) & 0xFFFFFFF)
    if desc['mode'] == 'single':
        script = {(a, b): c for a, b, c in desc['script']}
        flash_once(ctx, desc['tid'], ps, bp, fp, desc['sp'], desc['length'], desc['override'], script, rnd, 'replay')
        return
    for k in range(6):
        two_targets(ctx, rnd, 'two-targets-%d' % k)
    first = None
    if desc['mode'] == 'lengths':
        for sp in range(0, fp):
            maxlen = min((fp - sp) * ps + ps + 1, 3 * bp * ps + 1)
            lens = set(range(1, min(maxlen, 2 * ps + 2))) | {k * ps + d for k in range(0, 3 * bp + 2) for d in (-1, 0, 1)} | \
                {(fp - sp) * ps + d for d in (-1, 0, 1, 2)}
            for length in sorted(x for x in lens if 1 <= x <= maxlen):
                tid = 0xFF if (length + sp) % 2 == 0 else 0xFE
                r = flash_once(ctx, tid, ps, bp, fp, sp, length, None, {}, rnd, 'lengths')
                first = first or (r and {'geometry': (ps, bp, fp, sp), 'image_length': length, 'load_packets': r[0], 'write_commands': r[1]})
        # page override
        for ov in (0, 1, fp // 2, fp - 1):
            for length in (1, ps, ps * bp, ps * bp + 1, (fp - ov) * ps, (fp - ov) * ps + 1):
                if length >= 1:
                    flash_once(ctx, 0xFF, ps, bp, fp, min(2, fp - 1), length, ov, {}, rnd, 'override')
    elif desc['mode'] == 'realistic':
        sp = {1024: 16 if fp == 1024 else 88, 64: 3}[ps]
        cap = (fp - sp) * ps
        lens = sorted({1, ps - 1, ps, ps + 1, ps * bp - 1, ps * bp, ps * bp + 1, 2 * ps * bp, 2 * ps * bp + 7, 3 * ps * bp + 1,
                       min(cap, 5 * ps * bp + 3), cap - 1, cap, cap + 1})
        for length in lens:
            if length >= 1 and length <= cap + 1 and length <= 200000:
                r = flash_once(ctx, 0xFF if ps != 64 else 0xFE, ps, bp, fp, sp, length, None, {}, rnd, 'realistic')
                first = first or (r and {'geometry': (ps, bp, fp, sp), 'image_length': length, 'load_packets': r[0], 'write_commands': r[1]})
    else:
        # reply scripts: every combination of actions over the first attempts of the first three write commands
        sp = rnd.randrange(0, max(1, fp - 3 * bp - 1))
        length = rnd.choice((3 * bp * ps, 3 * bp * ps - 1, 2 * bp * ps + 1, bp * ps + ps))
        length = min(length, (fp - sp) * ps)
        acts = ('ok', 'drop', 'drop_request', 'neg', 'neg0')
        n = 0
        for ci in range(3):
            for a0 in acts:
                for a1 in acts:
                    for tail in ('ok', 'drop6'):
                        script = {(ci, 0): a0, (ci, 1): a1}
                        if tail == 'drop6':
                            for at in range(2, 8):
                                script[(ci, at)] = 'drop'
                        ctx.count('mon.reply_scripts')
                        if 'neg0' in (a0, a1):
                            ctx.count('mon.reply_scripts_with_a_refusal_that_carries_no_error_code')
                        flash_once(ctx, 0xFF, ps, bp, fp, sp, length, None, script, rnd, 'faults')
                        n += 1
        # a write command that is never answered while unrelated packets keep arriving
        for ci in range(3):
            for pattern in ('all', 'last', 'alternate'):
                script = {}
                for at in range(0, 8):
                    script[(ci, at)] = 'foreign' if (pattern == 'all' or (pattern == 'last' and at >= 5) or
                                                     (pattern == 'alternate' and at % 2)) else 'drop_request'
                ctx.count('mon.reply_scripts')
                ctx.count('mon.unanswered_write_on_a_busy_downlink')
                flash_once(ctx, 0xFF, ps, bp, fp, sp, length, None, script, rnd, 'busy-downlink')
                n += 1
        # a late answer to one write command (its duplicate stays queued) followed by a failing next command
        for ci in range(2):
            for late_at in (0, 1):
                for nxt in ('neg', 'drop_all', 'drop_request_all', 'drop_then_neg'):
                    script = {(ci, late_at): 'late'}
                    if late_at == 1:
                        script[(ci, 0)] = 'drop'
                    if nxt == 'neg':
                        script[(ci + 1, 0)] = 'neg'
                    elif nxt == 'drop_then_neg':
                        script[(ci + 1, 0)] = 'drop_request'
                        script[(ci + 1, 1)] = 'neg'
                    else:
                        for at in range(0, 8):
                            script[(ci + 1, at)] = 'drop' if nxt == 'drop_all' else 'drop_request'
                    ctx.count('mon.reply_scripts')
                    ctx.count('mon.late_answer_then_failing_write')
                    flash_once(ctx, 0xFF, ps, bp, fp, sp, length, None, script, rnd, 'late-then-fail')
                    n += 1
        first = {'geometry': (ps, bp, fp, sp), 'image_length': length, 'reply_scripts': n}
    ctx.sample(first)
