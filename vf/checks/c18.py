"""C18 - CPX framing and routing preserve packets under any stream fragmentation.

Scripted in-memory socket substituted for cflib.cpx.transports.socket (and a fake serial module for
the UART transport); the router / driver threads run under detsched.  Monitors: bytes written to and
packets read from the fake endpoints.
"""

import random
import struct

from vf import core, harness

PROPERTY = 'C18'
LEVEL = 'exploration'
RULE = ('codec: all 4x4 targets x 7 functions x last-packet flag x payload lengths {0,1,2,29,30,31,100,1021,1022} + random; '
        'versions 1..3 rejected. streams: 1..4 packets with total <= 14 bytes under ALL 2^(B-1) cut patterns (exhaustive), '
        'longer streams (<= 50 packets, <= 20 kB) under random cuts incl. 1-byte dribble and cuts inside the length prefix. '
        'router: mixed-function streams to per-function receivers. TcpDriver / SerialDriver: CRTP packets with every header '
        'and payload length 0..30 in both directions. distinct_nontrivial = distinct (stream bytes, cut pattern) / packets.')
ASSUMPTIONS = ['TCP framing: u16 little-endian length of the CPX wire data, then the wire data (2 header bytes + payload)',
               'UART framing: 0xFF, length, wire data, XOR checksum; 0xFF 0x00 is the clear-to-send acknowledgement',
               'receiver queues exist before packets arrive (the router drops packets for functions nobody asked for yet)']
REQUIRED = ['mon.tcp_links_with_two_threads_sending_at_the_same_time', 'mon.router_streams_stalling_for_seconds_inside_a_frame', 'mon.router_transactions_on_a_function_with_packets_waiting', 'mon.codec', 'mon.bad_version', 'mon.short_streams_all_cuts', 'mon.long_streams', 'mon.router_packets',
            'mon.tcp_crtp_up', 'mon.tcp_crtp_down', 'mon.serial_crtp_up', 'mon.serial_crtp_down', 'mon.crtp_packet_objects_sent_again', 'mon.uart_cpx_packets_of_every_length', 'mon.frames_of_32k_and_more',
            'mon.router_streams_with_rejected_frames']
EXHAUSTIVE = {'quick': False, 'thorough': False}
EXHAUSTIVE_NOTE = 'cut patterns of short streams (<= 14 bytes) are enumerated completely'
DESC_TIMEOUT = 900

TARGETS = (1, 2, 3, 4)
FUNCS = (1, 2, 3, 4, 5, 0x0E, 0x0F)


def cases(tier, seed):
    n = 16 if tier == 'quick' else 60
    out = [{'part': 'codec', 'seed': seed}]
    out += [{'part': 'short', 'seed': seed * 1009 + i, 'n': 14 if tier == 'quick' else 40} for i in range(n)]
    out += [{'part': 'long', 'seed': seed * 1009 + i, 'n': 6} for i in range(n)]
    out += [{'part': 'router', 'seed': seed * 1009 + i} for i in range(n)]
    out += [{'part': 'tcp', 'seed': seed * 1009 + i} for i in range(max(2, n // 2))]
    out += [{'part': 'serial', 'seed': seed * 1009 + i} for i in range(max(2, n // 2))]
    return out


def wire(src, dst, func, last, payload, version=0):
    return bytes([(src & 7) << 3 | (dst & 7) | (0x40 if last else 0), (func & 0x3F) | (version & 3) << 6]) + bytes(payload)


def run_codec(desc, ctx):
    from cflib.cpx import CPXFunction, CPXPacket, CPXTarget
    rnd = random.Random(desc['seed'])
    lens = [0, 1, 2, 29, 30, 31, 100, 1021, 1022]
    for src in TARGETS:
        for dst in TARGETS:
            for func in FUNCS:
                for last in (False, True):
                    for ln in rnd.sample(lens, 3) + [rnd.randint(0, 1022)]:
                        payload = bytes(rnd.getrandbits(8) for _ in range(ln))
                        p = CPXPacket(function=CPXFunction(func), destination=CPXTarget(dst), source=CPXTarget(src),
                                      data=bytearray(payload))
                        p.lastPacket = last
                        w = bytes(p.wireData)
                        ctx.evals()
                        ctx.count('mon.codec')
                        ctx.nontrivial(('codec', src, dst, func, last, ln))
                        ref = wire(src, dst, func, last, payload)
                        if w != ref:
                            ctx.violate('cpx:encoding-differs-from-layout', {'src': src, 'dst': dst, 'func': func, 'last': last,
                                                                            'len': ln, 'got': w[:8].hex(), 'want': ref[:8].hex()})
                            continue
                        q = CPXPacket()
                        q.wireData = bytearray(ref)
                        if (q.source.value, q.destination.value, q.function.value, bool(q.lastPacket), bytes(q.data), q.length) != \
                                (src, dst, func, last, payload, ln):
                            ctx.violate('cpx:decoding-loses-fields', {'src': src, 'dst': dst, 'func': func, 'last': last, 'len': ln,
                                                                     'got': (q.source.value, q.destination.value, q.function.value,
                                                                             bool(q.lastPacket), q.length)})
    for version in (1, 2, 3):
        for func in FUNCS:
            q = CPXPacket()
            ctx.evals()
            ctx.count('mon.bad_version')
            try:
                q.wireData = bytearray(wire(3, 1, func, False, b'ab', version=version))
                ctx.violate('cpx:unsupported-version-accepted', {'version': version, 'func': func})
            except RuntimeError:
                pass
    ctx.sample({'codec_combinations': 'all targets x functions x flag', 'example_wire': wire(3, 1, 3, True, b'\x01\x02').hex()})


class FakeSocketModule:
    AF_INET, SOCK_STREAM, SOCK_DGRAM, SHUT_WR = 2, 1, 2, 1

    def __init__(self, factory):
        self._factory = factory

    def socket(self, *a):
        return self._factory()


class ScriptSocket:
    """recv hands out the stream in the scripted chunks (never more than asked for)."""

    def __init__(self, stream, cuts):
        self.chunks = []
        prev = 0
        for c in list(cuts) + [len(stream)]:
            if c > prev:
                self.chunks.append(stream[prev:c])
                prev = c
        self.sent = bytearray()
        self.asked = []

    def connect(self, addr):
        self.addr = addr

    # socket options an implementation may set: the scripted chunks arrive without pauses, a time-out never expires
    def settimeout(self, t):
        self.timeout = t

    def gettimeout(self):
        return getattr(self, 'timeout', None)

    def setblocking(self, flag):
        pass

    def setsockopt(self, *a):
        pass

    def send(self, data):
        self.sent += bytes(data)
        return len(data)

    def recv(self, n):
        self.asked.append(n)
        if not self.chunks:
            raise EOFError('stream exhausted')
        c = self.chunks[0]
        if len(c) <= n:
            self.chunks.pop(0)
            return bytes(c)
        self.chunks[0] = c[n:]
        return bytes(c[:n])

    def shutdown(self, how):
        pass

    def close(self):
        pass


def gen_packets(rnd, n, maxlen):
    pk = []
    for _ in range(n):
        pk.append((rnd.choice(TARGETS), rnd.choice(TARGETS), rnd.choice(FUNCS), rnd.random() < 0.3,
                   bytes(rnd.getrandbits(8) for _ in range(rnd.randint(0, maxlen)))))
    return pk


def stream_of(pk):
    s = b''
    for (src, dst, func, last, payload) in pk:
        w = wire(src, dst, func, last, payload)
        s += struct.pack('<H', len(w)) + w
    return s


def read_all(ctx, pk, stream, cuts, label):
    import cflib.cpx.transports as tr
    import contextlib
    import io
    sock = ScriptSocket(stream, cuts)
    old = tr.socket
    tr.socket = FakeSocketModule(lambda: sock)
    try:
        with contextlib.redirect_stdout(io.StringIO()):
            t = tr.SocketTransport('host', 5000)
        got = []
        err = None
        try:
            for _ in pk:
                p = t.readPacket()
                got.append((p.source.value, p.destination.value, p.function.value, bool(p.lastPacket), bytes(p.data)))
        except Exception as e:  # noqa
            err = repr(e)
    finally:
        tr.socket = old
    ctx.evals()
    if got != [tuple(x) for x in pk] or err:
        ctx.violate('cpx:stream-not-reassembled-into-the-sent-sequence:%s' % label,
                    {'packets': [(a, b, c, d, e.hex()) for (a, b, c, d, e) in pk][:5], 'cuts': list(cuts)[:30], 'read': len(got),
                     'error': err, 'first_mismatch': next((i for i, (g, w) in enumerate(zip(got, pk)) if g != tuple(w)), None)})
        return False
    return True


def run_short(desc, ctx):
    rnd = random.Random(desc['seed'])
    total = 0
    for _ in range(desc['n']):
        n = rnd.randint(1, 4)
        # total stream <= 14 bytes: each packet costs 4 bytes of framing
        while True:
            pk = gen_packets(rnd, n, 3)
            s = stream_of(pk)
            if len(s) <= 14:
                break
            n = max(1, n - 1)
        B = len(s)
        for mask in range(1 << (B - 1)):
            cuts = [i + 1 for i in range(B - 1) if mask >> i & 1]
            ctx.count('mon.short_streams_all_cuts')
            ctx.nontrivial(('short', s, mask))
            if not read_all(ctx, pk, s, cuts, 'short'):
                break
            total += 1
    ctx.sample({'short_stream_cut_patterns': total})


def run_long(desc, ctx):
    rnd = random.Random(desc['seed'])
    for _ in range(desc['n']):
        pk = gen_packets(rnd, rnd.randint(5, 50), rnd.choice((10, 100, 400)))
        s = stream_of(pk)
        mode = rnd.choice(('dribble', 'random', 'prefix', 'big'))
        if mode == 'dribble':
            cuts = list(range(1, len(s)))
        elif mode == 'random':
            cuts = sorted(rnd.sample(range(1, len(s)), min(len(s) - 1, rnd.randint(1, 200))))
        elif mode == 'prefix':
            cuts, pos = [], 0
            for p in pk:
                cuts.append(pos + 1)          # between the two bytes of the length prefix
                pos += 4 + len(p[4])
        else:
            cuts = []
        ctx.count('mon.long_streams')
        ctx.nontrivial(('long', core.h64(s), mode, core.h64(cuts)))
        read_all(ctx, pk, s, cuts, 'long-' + mode)
    # frames near the top of what the 16-bit length prefix can announce (payload = frame - 2 header bytes)
    for _ in range(2):
        sizes = [rnd.choice((32765, 32766, 32767, 40000, 65533, rnd.randint(1023, 65533))), rnd.randint(0, 20),
                 rnd.choice((32766, 65533, rnd.randint(30000, 65533))), 0]
        pk = [(rnd.choice(TARGETS), rnd.choice(TARGETS), rnd.choice(FUNCS), rnd.random() < 0.3, rnd.randbytes(n)) for n in sizes]
        s = stream_of(pk)
        cuts = sorted(rnd.sample(range(1, len(s)), 12)) if rnd.random() < 0.5 else list(range(4096, len(s), 4096))
        ctx.count('mon.frames_of_32k_and_more')
        read_all(ctx, pk, s, cuts, 'huge')
    ctx.sample({'long_streams': desc['n']})


# ------------------------------------------------------------------------------------------ router / drivers under detsched
class LiveSocket:
    """Blocking in-memory socket for the threaded parts (virtual-time blocking through detsched).  Pieces of the stream
    may arrive after a pause; a receive time-out set with settimeout() is honoured (TimeoutError, the piece stays)."""

    def __init__(self):
        from vf import detsched as ds
        self.q = ds.Queue()
        self.buf = b''
        self.pending = None
        self.timeout = None
        self.timeouts_raised = 0
        self.sent = bytearray()
        self.closed = False
        self.rnd = random.Random(1)

    def connect(self, addr):
        pass

    def settimeout(self, t):
        self.timeout = t

    def gettimeout(self):
        return self.timeout

    def setblocking(self, flag):
        self.timeout = None if flag else 0.0

    def setsockopt(self, *a):
        pass

    def feed(self, data, cuts=None, pauses=None):
        """pauses: {cut position: seconds that pass before the piece starting there arrives}"""
        data = bytes(data)
        pos = 0
        for c in (cuts or []) + [len(data)]:
            if c > pos:
                self.q.put(((pauses or {}).get(pos, 0.0), data[pos:c]))
                pos = c

    def _yield(self):
        # a send on a real socket is a system call: other threads run meanwhile
        from vf import detsched as ds
        if ds.CUR is not None and ds.CUR.managed():
            ds.CUR.point(force=True)

    def send(self, data):
        self._yield()
        self.sent += bytes(data)
        return len(data)

    def sendall(self, data):
        self._yield()
        self.sent += bytes(data)

    def recv(self, n):
        import queue as _q
        from vf import detsched as ds
        if not self.buf:
            if self.pending is None:
                try:
                    self.pending = self.q.get() if self.timeout is None else self.q.get(timeout=self.timeout)
                except _q.Empty:
                    self.timeouts_raised += 1
                    raise TimeoutError('timed out')
            pause, data = self.pending
            sch = ds.CUR
            if pause > 0 and sch is not None:
                if self.timeout is not None and pause > self.timeout:
                    sch.sleep(self.timeout)
                    self.pending = (pause - self.timeout, data)
                    self.timeouts_raised += 1
                    raise TimeoutError('timed out')
                sch.sleep(pause)
            self.pending = None
            self.buf = data
        out, self.buf = self.buf[:n], self.buf[n:]
        return out

    def shutdown(self, how):
        pass

    def close(self):
        self.closed = True


def run_router(desc, ctx):
    harness.init()
    from vf import detsched as ds
    import cflib.cpx as cpx
    import cflib.cpx.transports as tr
    import contextlib
    import io
    rnd = random.Random(desc['seed'])
    pk = gen_packets(rnd, rnd.randint(10, 60), 40)
    funcs = sorted({p[2] for p in pk})
    listen = set(rnd.sample(funcs, max(1, len(funcs) - 1)))
    s = stream_of(pk)
    if desc['seed'] % 2 == 0:
        # frames of an unsupported version in between (another firmware generation on the same wire): they are
        # rejected, everything else is still delivered
        s = b''
        nbad = 0
        for q in pk:
            if rnd.random() < 0.15:
                w = wire(rnd.choice(TARGETS), rnd.choice(TARGETS), rnd.choice(FUNCS), False,
                         bytes(rnd.getrandbits(8) for _ in range(rnd.randint(0, 10))), version=rnd.choice((1, 2, 3)))
                s += struct.pack('<H', len(w)) + w
                nbad += 1
            s += stream_of([q])
        ctx.count('mon.router_streams_with_rejected_frames', 1 if nbad else 0)
    cuts = sorted(rnd.sample(range(1, len(s)), min(len(s) - 1, 40)))
    ob = {'got': {f: [] for f in listen}, 'err': None}

    def fn(sch):
        sock = LiveSocket()
        old = tr.socket
        tr.socket = FakeSocketModule(lambda: sock)
        try:
            with contextlib.redirect_stdout(io.StringIO()):
                c = cpx.CPX(tr.SocketTransport('h', 1))
                for f in listen:
                    try:
                        c.receivePacket(cpx.CPXFunction(f), timeout=0.001)
                    except Exception:
                        pass
                pauses = {}
                if desc['seed'] % 4 == 3:
                    # the stream stalls for seconds in the middle of frames (a busy WiFi link): fragmentation in time
                    for cut in rnd.sample(cuts, min(len(cuts), 3)):
                        pauses[cut] = rnd.uniform(1.2, 3.0)
                    ob['stalls'] = len(pauses)
                sock.feed(s, cuts, pauses)
                import threading

                transactor = min(listen) if desc['seed'] % 3 != 1 else None
                trnd = random.Random(desc['seed'] ^ 0x7A)

                def rx(f):
                    want = sum(1 for p in pk if p[2] == f)
                    for _ in range(want):
                        if f == transactor and trnd.random() < 0.4:
                            # request / answer on this function: the request goes out, the next packet of the function is
                            # the answer (packets of the function that arrived earlier are still handed over first)
                            req = cpx.CPXPacket(function=cpx.CPXFunction(f), destination=cpx.CPXTarget.GAP8, data=bytearray(b'?'))
                            p = c.makeTransaction(req)
                            ob['transactions'] = ob.get('transactions', 0) + 1
                        else:
                            p = c.receivePacket(cpx.CPXFunction(f), timeout=50.0)
                        ob['got'][f].append((p.source.value, p.destination.value, p.function.value, bool(p.lastPacket), bytes(p.data)))
                ths = [threading.Thread(target=rx, args=(f,)) for f in listen]
                for t in ths:
                    t.start()
                for t in ths:
                    t.join()
                # nothing more may arrive for any listener
                for f in listen:
                    try:
                        extra = c.receivePacket(cpx.CPXFunction(f), timeout=0.5)
                        ob['got'][f].append(('EXTRA', extra.function.value))
                    except Exception:
                        pass
        except Exception as e:  # noqa
            ob['err'] = repr(e)
        finally:
            tr.socket = old
    _, abort, sch = harness.sched_case(fn, seed=desc['seed'], policy='random', line_p=harness.line_p_for(desc['seed'], 4, 0.15), horizon=500.0, max_steps=12_000_000)
    ctx.count('mon.statement_level_preemption_points', sch.line_points)
    ctx.evals()
    if abort is not None or ob['err'] or sch.deaths:
        ctx.violate('cpx:router-hang-or-error', {'abort': str(abort), 'error': ob['err'], 'thread_deaths': [(d[0], d[1], d[2][-600:]) for d in sch.deaths][:2]})
        return
    for f in listen:
        want = [tuple(p) for p in pk if p[2] == f]
        ctx.count('mon.router_packets', len(want))
        if ob['got'][f] != want:
            ctx.violate('cpx:router-queue-differs-from-arrival-order-of-its-function',
                        {'function': f, 'want': len(want), 'got': len(ob['got'][f]),
                         'first_mismatch': next((i for i, (g, w) in enumerate(zip(ob['got'][f], want)) if g != w), None)})
    ctx.count('mon.router_transactions_on_a_function_with_packets_waiting', ob.get('transactions', 0))
    ctx.count('mon.router_streams_stalling_for_seconds_inside_a_frame', ob.get('stalls', 0))
    ctx.nontrivial(('router', core.h64(s), tuple(sorted(listen))))
    ctx.sample({'router_packets': len(pk), 'listening_functions': sorted(listen), 'functions_in_stream': funcs})


def crtp_cases(rnd):
    out = []
    for ln in range(0, 31):
        out.append((rnd.randrange(256) | 0x0C, bytes(rnd.getrandbits(8) for _ in range(ln))))
    for h in range(0, 256, 5):
        out.append((h | 0x0C, bytes(rnd.getrandbits(8) for _ in range(rnd.randint(0, 30)))))
    rnd.shuffle(out)
    return out


def _send_up(d, up, rnd, ob, CRTPPacket):
    """Send the uplink cases; one packet object in four is handed to the driver again (a re-sent request, a periodic
    setpoint), and the caller's packet must read the same after every send.  Returns the (header, data) sequence sent."""
    sent = []
    for (h, data) in up:
        if rnd.random() < 0.25:
            # built the way code that relays raw packets does: header byte assigned as it is
            pk = CRTPPacket()
            pk.header = h
            pk.data = list(data)
        else:
            pk = CRTPPacket(h, list(data))
        for _ in range(rnd.choice((1, 1, 1, 2, 3))):
            d.send_packet(pk)
            sent.append((h, data))
            if len(sent) > 1 and sent[-2] == (h, data):
                ob['resent'] = ob.get('resent', 0) + 1
            if (pk.header, bytes(pk.data)) != (h | 0x0C, data):
                ob['mutated'] = (h, data.hex(), pk.header, bytes(pk.data).hex())
    return sent


def run_tcp(desc, ctx):
    harness.init()
    from vf import detsched as ds
    import cflib.cpx.transports as tr
    from cflib.crtp.crtpstack import CRTPPacket
    from cflib.crtp.tcpdriver import TcpDriver
    import contextlib
    import io
    rnd = random.Random(desc['seed'])
    up = crtp_cases(rnd)
    down = crtp_cases(rnd)
    ob = {'rx': [], 'err': None, 'sent': b''}
    MARK = b'\xA5\x5A\xC3\x3C'
    second = [(0x5C, MARK + bytes([i & 0xFF, (i * 7) & 0xFF][:1 + i % 2])) for i in range(40)] if desc['seed'] % 2 == 0 else []

    def fn(sch):
        sock = LiveSocket()
        old = tr.socket
        tr.socket = FakeSocketModule(lambda: sock)
        try:
            with contextlib.redirect_stdout(io.StringIO()):
                d = TcpDriver()
                d.connect('tcp://192.168.4.1:5000', None, lambda m: ob.__setitem__('err', m))
                t2 = None
                if second:
                    # another application thread sends on the same link at the same time
                    import threading

                    def other_sender():
                        for (h2, d2) in second:
                            d.send_packet(CRTPPacket(h2, list(d2)))
                    t2 = threading.Thread(target=other_sender)
                    t2.start()
                up[:] = _send_up(d, list(up), rnd, ob, CRTPPacket)
                if t2 is not None:
                    t2.join()
                s = b''
                for (h, data) in down:
                    w = wire(1, 3, 3, True, bytes([h]) + data)
                    s += struct.pack('<H', len(w)) + w
                cuts = sorted(rnd.sample(range(1, len(s)), 60))
                sch.sleep(0.5)      # the driver's receive thread has asked for CRTP packets by now (queue exists)
                sock.feed(s, cuts)
                for _ in down:
                    p = d.receive_packet(5.0)
                    if p is None:
                        break
                    ob['rx'].append((p.header, bytes(p.data)))
                ob['sent'] = bytes(sock.sent)
                d.close()
        except Exception as e:  # noqa
            ob['err'] = repr(e)
        finally:
            tr.socket = old
    _, abort, sch = harness.sched_case(fn, seed=desc['seed'], policy='random', line_p=harness.line_p_for(desc['seed'], 4, 0.15), horizon=500.0, max_steps=12_000_000)
    ctx.count('mon.statement_level_preemption_points', sch.line_points)
    ctx.evals()
    if abort is not None or ob['err']:
        ctx.violate('tcp:driver-hang-or-error', {'abort': str(abort), 'error': str(ob['err'])[:400]})
        return
    # decode what the driver wrote
    b = ob['sent']
    frames = []
    while len(b) >= 2:
        n = struct.unpack('<H', b[:2])[0]
        frames.append(b[2:2 + n])
        b = b[2 + n:]
    crtp = [f for f in frames if len(f) >= 2 and f[1] & 0x3F == 3]
    if second:
        ctx.count('mon.tcp_links_with_two_threads_sending_at_the_same_time')
        theirs = [f for f in crtp if bytes(f[3:3 + len(MARK)]) == MARK]
        crtp = [f for f in crtp if bytes(f[3:3 + len(MARK)]) != MARK]
        want2 = [wire(3, 1, 3, False, bytes([h2 | 0x0C]) + d2) for (h2, d2) in second]
        if theirs != want2 or b:
            ctx.violate('tcp:uplink-stream-garbled-with-two-threads-sending',
                        {'frames_of_the_second_thread': len(theirs), 'wanted': len(want2), 'bytes_left_over': len(b),
                         'frames_of_other_functions': len(frames) - len(crtp) - len(theirs)})
    ctx.count('mon.tcp_crtp_up', len(crtp))
    ctx.count('mon.crtp_packet_objects_sent_again', ob.get('resent', 0))
    if ob.get('mutated'):
        ctx.violate('tcp:send_packet-changed-the-callers-packet', {'header_data_before_after': ob['mutated']})
    want = [wire(3, 1, 3, False, bytes([h]) + data) for (h, data) in up]
    if crtp != want:
        ctx.violate('tcp:uplink-crtp-packets-differ', {'n_want': len(want), 'n_got': len(crtp),
                                                       'first_mismatch': next((i for i, (g, w) in enumerate(zip(crtp, want)) if g != w), None)})
    ctx.count('mon.tcp_crtp_down', len(ob['rx']))
    wantd = [(h | 0x0C, data) for (h, data) in down]
    if ob['rx'] != wantd:
        ctx.violate('tcp:downlink-crtp-packets-differ', {'n_want': len(wantd), 'n_got': len(ob['rx']),
                                                         'first_mismatch': next((i for i, (g, w) in enumerate(zip(ob['rx'], wantd)) if g != w), None)})
    ctx.nontrivial(('tcp', desc['seed']))
    ctx.sample({'tcp_uplink': len(crtp), 'tcp_downlink': len(ob['rx'])})


class FakeSerial:
    """UART peer: acknowledges every frame with 0xFF 0x00 and sends scripted frames."""

    def __init__(self):
        from vf import detsched as ds
        self.q = ds.Queue()
        self.buf = b''
        self.written = bytearray()
        self.frames = []
        self.acks = 0
        self._rx = bytearray()

    def read(self, n):
        out = b''
        while len(out) < n:
            if not self.buf:
                self.buf = self.q.get()
            take = self.buf[:n - len(out)]
            out += take
            self.buf = self.buf[len(take):]
        return out

    def write(self, data):
        data = bytes(bytearray(data))
        self.written += data
        self._rx += data
        # parse complete frames from the host
        while len(self._rx) >= 2:
            if self._rx[0] != 0xFF:
                self._rx.pop(0)
                continue
            ln = self._rx[1]
            if ln == 0:
                self.acks += 1
                del self._rx[:2]
                continue
            if len(self._rx) < ln + 3:
                break
            frame = bytes(self._rx[:ln + 3])
            del self._rx[:ln + 3]
            x = 0
            for bb in frame[:-1]:
                x ^= bb
            self.frames.append((frame[2:-1], x == frame[-1]))
            self.q.put(bytes([0xFF, 0x00]))     # clear to send
        return len(data)

    def close(self):
        pass

    def send_frame(self, w):
        f = bytes([0xFF, len(w)]) + w
        x = 0
        for bb in f:
            x ^= bb
        self.q.put(f + bytes([x]))


def run_serial(desc, ctx):
    harness.init()
    import types
    import cflib.cpx.transports as tr
    import cflib.crtp.serialdriver as sd
    from cflib.crtp.crtpstack import CRTPPacket
    import contextlib
    import io
    rnd = random.Random(desc['seed'])
    up = crtp_cases(rnd)
    down = crtp_cases(rnd)
    ob = {'rx': [], 'err': None}

    def fn(sch):
        ser = FakeSerial()
        fake_mod = types.SimpleNamespace(Serial=lambda dev, baud, timeout=None: ser)
        port = types.SimpleNamespace(name='ttyFAKE0', device='/dev/ttyFAKE0')
        old = (getattr(tr, 'serial', None), getattr(sd, 'list_ports', None))
        tr.serial = fake_mod
        sd.list_ports = types.SimpleNamespace(comports=lambda: [port])
        try:
            with contextlib.redirect_stdout(io.StringIO()):
                ser.q.put(bytes([0x12, 0xFF, 0x00]))      # noise, then the sync sequence
                d = sd.SerialDriver()
                d.connect('serial://ttyFAKE0', None, lambda m: ob.__setitem__('err', m))
                up[:] = _send_up(d, list(up), rnd, ob, CRTPPacket)
                sch.sleep(1.5)      # the driver's receive thread has asked for CRTP packets by now (queue exists)
                for (h, data) in down:
                    ser.send_frame(wire(1, 3, 3, True, bytes([h]) + data))
                for _ in down:
                    p = d.receive_packet(5.0)
                    if p is None:
                        break
                    ob['rx'].append((p.header, bytes(p.data)))
                # plain CPX packets over the same UART transport: every payload length up to the largest that fits a frame
                from cflib.cpx import CPXFunction, CPXPacket, CPXTarget
                import queue as _q
                lens = sorted(set([0, 1, 2, 31, 32, 96, 97, 98] + [rnd.randint(0, 98) for _ in range(6)]))
                ob['cpx_up'] = [rnd.randbytes(n) for n in lens]
                for pl in ob['cpx_up']:
                    d.cpx.sendPacket(CPXPacket(function=CPXFunction.APP, destination=CPXTarget.GAP8, data=bytearray(pl)))
                try:
                    d.cpx.receivePacket(CPXFunction.APP, timeout=0.01)      # (creates the queue of that function)
                except _q.Empty:
                    pass
                ob['cpx_down'] = [rnd.randbytes(n) for n in lens]
                for pl in ob['cpx_down']:
                    ser.send_frame(wire(4, 3, 5, True, pl))
                ob['cpx_rx'] = []
                for _ in ob['cpx_down']:
                    try:
                        p = d.cpx.receivePacket(CPXFunction.APP, timeout=5.0)
                    except _q.Empty:
                        break
                    ob['cpx_rx'].append((p.source.value, p.destination.value, p.function.value, bool(p.lastPacket), bytes(p.data)))
                ob['frames'] = list(ser.frames)
                ob['acks'] = ser.acks
                d.close()
        except Exception as e:  # noqa
            import traceback
            ob['err'] = traceback.format_exc()[-600:]
        finally:
            if old[0] is None:
                del tr.serial
            else:
                tr.serial = old[0]
            if old[1] is None:
                del sd.list_ports
            else:
                sd.list_ports = old[1]
    _, abort, sch = harness.sched_case(fn, seed=desc['seed'], policy='random', line_p=harness.line_p_for(desc['seed'], 4, 0.15), horizon=500.0, max_steps=12_000_000)
    ctx.count('mon.statement_level_preemption_points', sch.line_points)
    ctx.evals()
    if abort is not None or ob['err']:
        ctx.violate('serial:driver-hang-or-error', {'abort': str(abort), 'threads': getattr(abort, 'table', None),
                                                    'error': str(ob['err'])[:600]})
        return
    frames = ob.get('frames', [])
    if any(not ok for _, ok in frames):
        ctx.violate('serial:frame-with-wrong-checksum', {})
    crtp = [f for f, ok in frames if len(f) >= 2 and f[1] & 0x3F == 3]
    ctx.count('mon.serial_crtp_up', len(crtp))
    app = [f for f, ok in frames if len(f) >= 2 and f[1] & 0x3F == 5]
    ctx.count('mon.uart_cpx_packets_of_every_length', len(app) + len(ob.get('cpx_rx', [])))
    if app != [wire(3, 4, 5, False, pl) for pl in ob.get('cpx_up', [])]:
        ctx.violate('uart:cpx-packets-written-differ-from-those-sent', {'sent_lengths': [len(x) for x in ob.get('cpx_up', [])],
                                                                       'frame_payload_lengths': [len(f) - 2 for f in app]})
    if ob.get('cpx_rx') != [(4, 3, 5, True, pl) for pl in ob.get('cpx_down', [])]:
        ctx.violate('uart:cpx-packets-read-differ-from-those-on-the-wire', {'wire_lengths': [len(x) for x in ob.get('cpx_down', [])],
                                                                           'read': [(r[0], r[1], r[2], r[3], len(r[4])) for r in ob.get('cpx_rx', [])][:12]})
    ctx.count('mon.crtp_packet_objects_sent_again', ob.get('resent', 0))
    if ob.get('mutated'):
        ctx.violate('serial:send_packet-changed-the-callers-packet', {'header_data_before_after': ob['mutated']})
    want = [wire(3, 1, 3, False, bytes([h]) + data) for (h, data) in up]
    if crtp != want:
        ctx.violate('serial:uplink-crtp-packets-differ', {'n_want': len(want), 'n_got': len(crtp),
                                                          'first_mismatch': next((i for i, (g, w) in enumerate(zip(crtp, want)) if g != w), None)})
    ctx.count('mon.serial_crtp_down', len(ob['rx']))
    wantd = [(h | 0x0C, data) for (h, data) in down]
    if ob['rx'] != wantd:
        ctx.violate('serial:downlink-crtp-packets-differ', {'n_want': len(wantd), 'n_got': len(ob['rx']),
                                                            'first_mismatch': next((i for i, (g, w) in enumerate(zip(ob['rx'], wantd)) if g != w), None)})
    ctx.nontrivial(('serial', desc['seed']))
    ctx.sample({'serial_uplink': len(crtp), 'serial_downlink': len(ob['rx']), 'host_acks': ob.get('acks')})


def run(desc, ctx):
    core.setup_path()
    globals()['run_' + desc['part']](desc, ctx)

