"""C14 - stored configuration images round-trip and validity follows the checksum.

The real memory classes run against a byte-array memory handler (read -> new_data, write -> write_done);
YAML managers against temp files.  References come from vf.refcodec / struct, never from the library.
"""
import math
import os
import random
import shutil
import struct
import tempfile
import zlib

from vf import core, refcodec

PROPERTY = 'C14'
LEVEL = 'exploration'
RULE = ('I2C EEPROM v0/v1: all channels / speeds / float32 trims incl. NaN and extremes / 40-bit addresses, every '
        'single-byte corruption (each offset x several values); 1-wire: vid/pid/pins, every subset and order of the three '
        'element kinds, every string length that fits 112 bytes, ISO-8859-1, single-byte corruptions; lighthouse geometry / '
        'calibration memory layout and YAML files for any subset of base stations; persistent-parameter YAML; Poly4D, '
        'compressed trajectories, LED timings (write-only layouts); deck-memory info sections (all bit-field combinations) '
        'and Loco / Loco2 anchor lists. distinct_nontrivial = distinct images (hash) that reached a monitor.')
ASSUMPTIONS = ['EEPROM layout: "0xBC", version, channel, speed, pitch trim, roll trim, [address hi, address lo32], sum mod 256',
               '1-wire layout: 0xEB, pins u32, vid, pid, crc32&0xFF | 0x00, len, TLV..., crc32&0xFF',
               'reads that would run past the 112-byte 1-wire memory fail on the device and are not generated']
REQUIRED = ['mon.lh_read_all_with_one_page_failing', 'mon.loco_lists_read_again_after_all_anchors_were_removed', 'mon.i2c_reads_of_other_memories_seen_by_the_element', 'mon.lh_config_writer_subsets_not_starting_at_zero_or_with_gaps', 'mon.i2c_roundtrip', 'mon.i2c_corruptions', 'mon.ow_roundtrip', 'mon.ow_corruptions', 'mon.lh_mem', 'mon.lh_yaml',
            'mon.param_yaml', 'mon.poly4d', 'mon.led_timings', 'mon.led_timing_entries_around_the_end_marker', 'mon.deck_info', 'mon.loco', 'mon.loco2', 'mon.ow_all_lengths',
            'mon.compressed_trajectory_uploads', 'mon.lh_memory_to_file_to_memory']
DESC_TIMEOUT = 900


def cases(tier, seed):
    n = 24 if tier == 'quick' else 80
    parts = ['i2c', 'ow', 'lh', 'yaml', 'traj', 'deck', 'loco']
    out = [{'seed': seed * 100003 + i, 'part': p, 'n': 60} for i in range(n) for p in parts]
    out.append({'seed': 0, 'part': 'ow_lengths', 'n': 0})
    return out


class MemHandler:
    """Byte-array memory behind the mem_handler interface of a MemoryElement."""

    def __init__(self, size=0x3000, fill=0):
        self.image = bytearray([fill] * size)
        self.reads = []
        self.writes = []
        self.target = None
        self.fail_read = False

    def read(self, mem, addr, length):
        self.reads.append((addr, length))
        if addr in getattr(self, 'fail_once', ()):
            # the device answers this read with an error status (once)
            self.fail_once.discard(addr)
            (getattr(mem, '_new_data_failed', None) or getattr(mem, 'new_data_failed'))(mem, addr, bytearray())
            return True
        data = bytearray(self.image[addr:addr + length])
        if len(data) < length:
            data += bytearray(length - len(data))
        cb = getattr(mem, '_new_data', None) or getattr(mem, 'new_data')
        cb(mem, addr, data)
        return True

    def write(self, mem, addr, data, flush_queue=False, progress_cb=None):
        data = bytes(bytearray(data))
        self.writes.append((addr, data, flush_queue))
        self.image[addr:addr + len(data)] = data
        cb = getattr(mem, '_write_done', None) or getattr(mem, 'write_done')
        cb(mem, addr)
        return True


class DeferredMemHandler(MemHandler):
    """Completions are delivered later (pump()), as the incoming thread of a real connection does - the callers of the
    memory elements rely on a request returning before its completion callback runs."""

    def __init__(self, size=0x3000, fill=0):
        MemHandler.__init__(self, size, fill)
        self.queue = []

    def read(self, mem, addr, length):
        self.queue.append(lambda: MemHandler.read(self, mem, addr, length))
        return True

    def write(self, mem, addr, data, flush_queue=False, progress_cb=None):
        data = bytes(bytearray(data))
        self.queue.append(lambda: MemHandler.write(self, mem, addr, data, flush_queue))
        return True

    def pump(self, more=None, limit=10000):
        n = 0
        while n < limit:
            if self.queue:
                self.queue.pop(0)()
            elif more is not None and more():
                pass
            else:
                break
            n += 1


def fbits(x):
    return struct.pack('<f', x)


def rf32(rnd):
    return rnd.choice((0.0, -0.0, 1.0, -1.5, 3.4028234663852886e38, -3.4028234663852886e38, 1e-45, float('inf'),
                       float('-inf'), float('nan'), rnd.uniform(-10, 10), rnd.uniform(-1e6, 1e6)))


# ------------------------------------------------------------------------------------------ I2C
def run_i2c(desc, ctx):
    from cflib.crazyflie.mem.i2c_element import I2CElement
    rnd = random.Random(desc['seed'])
    for it in range(desc['n']):
        ver = rnd.choice((0, 1))
        ch = rnd.choice((0, 255, 80, rnd.randrange(256)))
        sp = rnd.choice((0, 1, 2, 255, rnd.randrange(256)))
        pt, rt = rf32(rnd), rf32(rnd)
        addr = rnd.choice((0, 0xE7E7E7E7E7, 0xFFFFFFFFFF, rnd.getrandbits(40)))
        h = MemHandler(size=64)
        el = I2CElement(id=0, type=0, size=64, mem_handler=h)
        el.elements = {'version': ver, 'radio_channel': ch, 'radio_speed': sp, 'pitch_trim': pt, 'roll_trim': rt}
        if ver == 1:
            el.elements['radio_address'] = addr
        done = []
        el.write_data(lambda m, a: done.append(a))
        ref = refcodec.i2c_image(ver, ch, sp, pt, rt, addr)
        ctx.evals()
        ctx.count('mon.i2c_roundtrip')
        ctx.nontrivial(('i2c', ref))
        if len(h.writes) != 1 or h.writes[0][0] != 0 or h.writes[0][1] != ref or done != [0]:
            ctx.violate('i2c:written-image-differs-from-layout', {'elements': core.jsonable(el.elements),
                                                                 'written': [w[1].hex() for w in h.writes], 'want': ref.hex()})
            continue

        def parse(image):
            hh = MemHandler(size=64)
            hh.image[:len(image)] = image
            e2 = I2CElement(id=0, type=0, size=64, mem_handler=hh)
            fin = []
            e2.update(lambda m: fin.append(1))
            return e2, fin
        hp = MemHandler(size=64)
        keep = I2CElement(id=0, type=0, size=64, mem_handler=hp)

        def reparse(image):
            # the library keeps one element object per memory for the whole connection: refresh it in place
            hp.image[:] = bytes(image) + bytes(64 - len(image))
            fin_ = []
            keep._update_finished_cb = None
            keep.update(lambda m: fin_.append(1))
            return keep, fin_
        e2, fin = parse(ref)
        ok = e2.valid and fin == [1] and e2.elements.get('version') == ver and e2.elements.get('radio_channel') == ch and \
            e2.elements.get('radio_speed') == sp and fbits(e2.elements.get('pitch_trim')) == fbits(pt) and \
            fbits(e2.elements.get('roll_trim')) == fbits(rt) and (ver == 0 or e2.elements.get('radio_address') == addr)
        if not ok:
            ctx.violate('i2c:correct-image-rejected-or-fields-lost', {'image': ref.hex(), 'valid': e2.valid,
                                                                      'elements': core.jsonable(e2.elements)})
            continue
        # the memory subsystem hands every finished read to every memory element: reads of OTHER memories (any address,
        # also the ones this element uses itself) leave the parsed configuration as it is and complete nothing here
        other = I2CElement(id=rnd.randint(1, 9), type=0, size=64, mem_handler=MemHandler(size=64))
        snap = (repr(sorted(e2.elements.items())), e2.valid)       # (repr: a NaN trim equals itself)
        try:
            for fa in (16, 0, 16, rnd.randrange(64)):
                e2.new_data(other, fa, bytes(rnd.getrandbits(8) for _ in range(rnd.choice((5, 16, 20, 24)))))
            e2.update(lambda m: fin.append(2))          # a refresh of its own, with foreign reads arriving in between
        except Exception as e:  # noqa
            snap = ('raised', repr(e)[:120])
        ctx.count('mon.i2c_reads_of_other_memories_seen_by_the_element')
        if snap != (repr(sorted(e2.elements.items())), e2.valid) or fin != [1, 2]:
            ctx.violate('i2c:parsed-configuration-disturbed-by-reads-of-other-memories',
                        {'before': core.jsonable(snap), 'after': core.jsonable((e2.elements, e2.valid)), 'completions': fin})
            continue
        # single-byte corruptions
        for off in range(len(ref)):
            for _ in range(3):
                newv = rnd.choice([v for v in (rnd.randrange(256), ref[off] ^ 1, ref[off] ^ 0x80, (ref[off] + 1) & 0xFF) if v != ref[off]])
                img = bytearray(ref)
                img[off] = newv
                want = refcodec.i2c_valid(bytes(img) + bytes(64 - len(img)))
                if rnd.random() < 0.5:
                    g, _ = reparse(ref)
                    if not g.valid:
                        ctx.violate('i2c:correct-image-rejected-on-refresh', {'image': ref.hex()})
                    e3, fin3 = reparse(bytes(img))
                else:
                    e3, fin3 = parse(bytes(img))
                ctx.evals()
                ctx.count('mon.i2c_corruptions')
                if want is None:
                    if e3.valid:
                        ctx.violate('i2c:unknown-version-reported-valid', {'image': bytes(img).hex()})
                    continue
                if bool(e3.valid) != bool(want):
                    ctx.violate('i2c:validity-differs-from-checksum', {'image': bytes(img).hex(), 'offset': off,
                                                                       'valid': e3.valid, 'reference': want})
                if off != 4 and e3.valid:
                    ctx.violate('i2c:single-byte-corruption-not-detected', {'image': bytes(img).hex(), 'offset': off})
        if it == 0:
            ctx.sample({'eeprom_image': ref.hex(), 'version': ver})


# ------------------------------------------------------------------------------------------ 1-wire
NAMES = {1: 'Board name', 2: 'Board revision', 3: 'Custom'}


def ow_case(ctx, rnd, elems, vid, pid, pins, corrupt=True):
    """elems: list of (eid, str) in insertion order."""
    from cflib.crazyflie.mem.ow_element import OWElement
    h = MemHandler(size=112, fill=0xFF)
    el = OWElement(id=1, type=1, size=112, addr='00', mem_handler=h)
    el.vid, el.pid, el.pins = vid, pid, pins
    el.elements = {}
    for eid, s in elems:
        el.elements[NAMES[eid]] = s
    done = []
    el.write_data(lambda m, a: done.append(a))
    ordered = [(eid, s.encode('latin-1')) for eid, s in reversed(elems)]
    ref = refcodec.ow_image(vid, pid, pins, ordered, size=0)
    ctx.evals()
    ctx.count('mon.ow_roundtrip')
    ctx.nontrivial(('ow', ref))
    info = {'vid': vid, 'pid': pid, 'pins': pins, 'elements': [(e, s) for e, s in elems]}
    if len(h.writes) != 1 or h.writes[0][0] != 0 or h.writes[0][1] != ref:
        ctx.violate('ow:written-image-differs-from-layout', dict(info, written=[w[1].hex() for w in h.writes], want=ref.hex()))
        return None

    def parse(image):
        hh = MemHandler(size=112, fill=0xFF)
        hh.image[:len(image)] = image[:112]
        e2 = OWElement(id=1, type=1, size=112, addr='00', mem_handler=hh)
        fin = []
        try:
            e2.update(lambda m: fin.append(1))
        except Exception as e:  # noqa
            return e2, fin, e
        return e2, fin, None
    hk = MemHandler(size=112, fill=0xFF)
    keep = OWElement(id=1, type=1, size=112, addr='00', mem_handler=hk)

    def reparse(image):
        hk.image[:] = (bytes(image) + bytes([0xFF]) * 112)[:112]
        fin_ = []
        keep._update_finished_cb = None
        try:
            keep.update(lambda m: fin_.append(1))
        except Exception as e:  # noqa
            return keep, fin_, e
        return keep, fin_, None
    e2, fin, err = parse(ref)
    want_el = {NAMES[e]: s for e, s in elems}
    ok = err is None and e2.valid and fin == [1] and e2.vid == vid and e2.pid == pid and e2.pins == pins and e2.elements == want_el
    if not ok:
        elen = ref[9]
        mech = 'ow:correct-image-rejected-or-fields-lost'
        if err is None and e2.valid and e2.elements == {} and want_el:
            mech += ':valid-but-elements-dropped'
        ctx.violate(mech, dict(info, image=ref.hex(), valid=e2.valid, parsed=e2.elements, error=repr(err), elem_len=elen,
                               first_element_id=ref[10] if len(ref) > 10 else None))
        return ref
    if corrupt:
        for off in range(len(ref)):
            newv = rnd.choice([v for v in (rnd.randrange(256), ref[off] ^ 1, ref[off] ^ 0x10) if v != ref[off]])
            img = bytearray(ref)
            img[off] = newv
            if off == 9 and 8 + newv + 3 > 112:
                continue
            full = bytes(img) + bytes([0xFF]) * (112 - len(img))
            hok, eok, parsed = refcodec.ow_valid(full)
            if rnd.random() < 0.5:
                g, _, gerr = reparse(ref)
                if gerr is not None or not g.valid:
                    ctx.violate('ow:correct-image-rejected-on-refresh', dict(info, error=repr(gerr)))
                e3, fin3, err3 = reparse(full)
            else:
                e3, fin3, err3 = parse(full)
            ctx.evals()
            ctx.count('mon.ow_corruptions')
            if eok and parsed and (parsed['elements'] is None or any(e not in NAMES for e, _ in parsed['elements'])):
                continue   # CRC matched by coincidence over a ragged TLV area / unknown element id: outside the statement
            want = bool(hok and eok)
            if err3 is not None and not want:
                continue   # an exception while parsing a corrupt image is a rejection
            if err3 is not None or bool(e3.valid) != want:
                ctx.violate('ow:validity-differs-from-crc', dict(info, offset=off, image=full[:len(ref) + 2].hex(),
                                                                 valid=e3.valid, reference=want, error=repr(err3)))
    return ref


def run_ow(desc, ctx):
    rnd = random.Random(desc['seed'])
    first = None
    for it in range(desc['n']):
        kinds = rnd.sample((1, 2, 3), rnd.randint(0, 3))
        budget = 112 - 8 - 3
        elems = []
        for eid in kinds:
            mx = max(0, min(budget - 2, 40))
            ln = rnd.choice((0, 1, 3, 5, rnd.randint(0, mx), rnd.randint(0, mx)))
            ln = min(ln, max(0, budget - 2))
            budget -= 2 + ln
            if budget < 0:
                break
            s = ''.join(chr(rnd.choice((rnd.randrange(32, 127), rnd.randrange(1, 256)))) for _ in range(ln))
            elems.append((eid, s))
        ref = ow_case(ctx, rnd, elems, rnd.randrange(256), rnd.randrange(256), rnd.getrandbits(32))
        first = first or (ref.hex() if ref else None)
    ctx.sample({'one_wire_image': first})


def run_ow_lengths(desc, ctx):
    """every total element length that fits 112 bytes, with every kind leading."""
    rnd = random.Random(7)
    n = 0
    for lead in (1, 2, 3):
        for total in range(0, 112 - 8 - 3 + 1):
            if total == 1:
                continue
            elems = []
            if total >= 2:
                elems = [(lead, 'x' * (total - 2))]
                if total - 2 > 40:
                    # split into two elements; `reversed` puts the last inserted element first on the wire
                    other = [k for k in (1, 2, 3) if k != lead][0]
                    a = (total - 4) // 2
                    elems = [(other, 'y' * (total - 4 - a)), (lead, 'x' * a)]
            ow_case(ctx, rnd, elems, 0xBC, lead, 0, corrupt=False)
            ctx.count('mon.ow_all_lengths')
            n += 1
    ctx.sample({'element_area_lengths_checked': n})


# ------------------------------------------------------------------------------------------ lighthouse memory / yaml
def rand_geo(rnd, valid=True):
    from cflib.crazyflie.mem import LighthouseBsGeometry
    g = LighthouseBsGeometry()
    g.origin = [struct.unpack('<f', fbits(rnd.uniform(-10, 10)))[0] for _ in range(3)]
    g.rotation_matrix = [[struct.unpack('<f', fbits(rnd.uniform(-1, 1)))[0] for _ in range(3)] for _ in range(3)]
    g.valid = valid
    return g


def rand_calib(rnd, valid=True):
    from cflib.crazyflie.mem import LighthouseBsCalibration
    c = LighthouseBsCalibration()
    for s in c.sweeps:
        for f in ('phase', 'tilt', 'curve', 'gibmag', 'gibphase', 'ogeemag', 'ogeephase'):
            setattr(s, f, struct.unpack('<f', fbits(rnd.choice((rnd.uniform(-1, 1), 0.0, 3.4028234663852886e38, 1e-45))))[0])
    c.uid = rnd.choice((0, 0xFFFFFFFF, rnd.getrandbits(32)))
    c.valid = valid
    return c


SWEEP_F = ('phase', 'tilt', 'curve', 'gibmag', 'gibphase', 'ogeemag', 'ogeephase')


def geo_eq(a, b):
    return list(a.origin) == list(b.origin) and [list(r) for r in a.rotation_matrix] == [list(r) for r in b.rotation_matrix]


def calib_eq(a, b):
    return a.uid == b.uid and all(getattr(a.sweeps[i], f) == getattr(b.sweeps[i], f) for i in range(2) for f in SWEEP_F)


def run_lh_writer(ctx, rnd):
    """LighthouseConfigWriter: geometry / calibration for ANY subset of base stations goes into the Crazyflie memory
    layout; what was supplied reads back valid and equal, every other base station reads back invalid."""
    import types
    from cflib.crazyflie.mem import LighthouseMemory, LighthouseMemHelper
    from cflib.localization.lighthouse_config_manager import LighthouseConfigWriter
    from cflib.utils.callbacks import Caller
    h = DeferredMemHandler(size=0x2000)
    mem = LighthouseMemory(id=2, type=0x14, size=0x2000, mem_handler=h)
    # stale but valid data in every slot (an earlier installation)
    for bs in range(16):
        mem.write_geo_data(bs, rand_geo(rnd, valid=True), lambda m, a: None)
        h.pump()
        mem.write_calib_data(bs, rand_calib(rnd, valid=True), lambda m, a: None)
        h.pump()
    del h.writes[:]
    persisted = []
    pending = []
    loc = types.SimpleNamespace(receivedLocationPacket=Caller(), LH_PERSIST_DATA=11)

    def send_persist(geo_list, calib_list):
        persisted.append((sorted(geo_list), sorted(calib_list)))
        pending.append(types.SimpleNamespace(type=11, data=True))      # (the confirmation arrives later, on the incoming thread)
    loc.send_lh_persist_data_packet = send_persist
    cf = types.SimpleNamespace(mem=types.SimpleNamespace(get_mems=lambda t: [mem] if t == 0x14 else []), loc=loc,
                               param=types.SimpleNamespace(set_value=lambda *a: None))
    shape = rnd.randrange(5)
    if shape == 0:
        ids = sorted(rnd.sample(range(16), rnd.randint(1, 4)))
    elif shape == 1:
        ids = [rnd.randrange(1, 16)]
    elif shape == 2:
        ids = list(range(rnd.randint(0, 4)))
    elif shape == 3:
        ids = sorted(rnd.sample(range(16), rnd.randint(5, 16)))
    else:
        ids = [0, rnd.randrange(2, 16)]
    geos = {i: rand_geo(rnd) for i in ids} if rnd.random() < 0.85 else None
    cids = ids if rnd.random() < 0.6 else sorted(rnd.sample(range(16), rnd.randint(0, 3)))
    calibs = {i: rand_calib(rnd) for i in cids} if rnd.random() < 0.85 else None
    if geos is None and calibs is None:
        geos = {i: rand_geo(rnd) for i in ids}
    done = []
    ctx.evals()
    ctx.count('mon.lh_config_writer_subsets')
    if ids != list(range(len(ids))):
        ctx.count('mon.lh_config_writer_subsets_not_starting_at_zero_or_with_gaps')
    info = {'geometry_for': None if geos is None else sorted(geos), 'calibration_for': None if calibs is None else sorted(calibs)}
    try:
        LighthouseConfigWriter(cf).write_and_store_config(lambda ok: done.append(ok), geos=geos, calibs=calibs)

        def confirm():
            if pending and len(persisted) < 5:
                loc.receivedLocationPacket.call(pending.pop(0))
                return True
            return False
        h.pump(more=confirm)
    except Exception as e:  # noqa
        ctx.violate('lh:config-writer-raised:%s' % type(e).__name__, dict(info, error=repr(e)[:200]))
        return
    problems = []
    if done != [True]:
        problems.append('completion callback calls %r' % (done,))
    got_g, got_c = [], []
    helper = LighthouseMemHelper(cf)
    helper.read_all_geos(lambda r: got_g.append(r))
    h.pump()
    helper.read_all_calibs(lambda r: got_c.append(r))
    h.pump()
    if geos is not None and got_g:
        for bs in range(16):
            o = got_g[0].get(bs)
            if bs in geos:
                if o is None or not o.valid or not geo_eq(o, geos[bs]):
                    problems.append('geometry of base station %d does not read back as written' % bs)
            elif o is None or o.valid:
                problems.append('geometry of base station %d (not in the configuration) still reads back valid' % bs)
    if calibs is not None and got_c:
        for bs in range(16):
            o = got_c[0].get(bs)
            if bs in calibs:
                if o is None or not o.valid or not calib_eq(o, calibs[bs]):
                    problems.append('calibration of base station %d does not read back as written' % bs)
            elif o is None or o.valid:
                problems.append('calibration of base station %d (not in the configuration) still reads back valid' % bs)
    if got_g and got_c and len(got_g[0]) == 16 and len(got_c[0]) == 16:
        # one page cannot be read this time (error status from the device): everything else is still handed over
        kg, kc = rnd.randrange(16), rnd.randrange(16)
        h.fail_once = {0x0000 + 0x100 * kg, 0x1000 + 0x100 * kc}
        again_g, again_c = [], []
        helper.read_all_geos(lambda r: again_g.append(r))
        h.pump()
        helper.read_all_calibs(lambda r: again_c.append(r))
        h.pump()
        ctx.count('mon.lh_read_all_with_one_page_failing')
        for (what, again, first, k, eq) in (('geometry', again_g, got_g[0], kg, geo_eq), ('calibration', again_c, got_c[0], kc, calib_eq)):
            if len(again) != 1:
                problems.append('%s: read of all base stations with one failing page completed %d times' % (what, len(again)))
                continue
            missing = [bs for bs in range(16) if bs != k and (bs not in again[0] or again[0][bs].valid != first[bs].valid or
                                                              (first[bs].valid and not eq(again[0][bs], first[bs])))]
            if missing or k in again[0]:
                problems.append('%s: page of base station %d failed to read; base stations %r are missing or differ in the result%s'
                                % (what, k, missing[:6], ' and the failed one is present' if k in again[0] else ''))
    want_p = [(list(range(16)) if geos is not None else [], list(range(16)) if calibs is not None else [])]
    if persisted != want_p:
        problems.append('persist request %r' % (persisted,))
    if problems:
        ctx.violate('lh:config-writer:subset-of-base-stations-does-not-round-trip', dict(info, problems=problems[:4]))


def run_lh(desc, ctx):
    from cflib.crazyflie.mem import LighthouseMemory
    rnd = random.Random(desc['seed'])
    for it in range(desc['n']):
        h = MemHandler(size=0x2000)
        mem = LighthouseMemory(id=2, type=0x14, size=0x2000, mem_handler=h)
        bs = rnd.randrange(0, 16)
        g = rand_geo(rnd, valid=rnd.random() < 0.8)
        c = rand_calib(rnd, valid=rnd.random() < 0.8)
        wd = []
        mem.write_geo_data(bs, g, lambda m, a: wd.append(('g', a)))
        mem.write_calib_data(bs, c, lambda m, a: wd.append(('c', a)))
        ref_g = b''.join(struct.pack('<fff', *v) for v in [g.origin] + g.rotation_matrix) + bytes([1 if g.valid else 0])
        ref_c = b''.join(struct.pack('<fffffff', *[getattr(s, f) for f in SWEEP_F]) for s in c.sweeps) + struct.pack('<I', c.uid) + bytes([1 if c.valid else 0])
        ctx.evals()
        ctx.count('mon.lh_mem')
        ctx.nontrivial(('lh', ref_g, ref_c))
        want = [(bs * 0x100, ref_g), (0x1000 + bs * 0x100, ref_c)]
        if [(w[0], w[1]) for w in h.writes] != want or wd != [('g', bs * 0x100), ('c', 0x1000 + bs * 0x100)]:
            ctx.violate('lh:memory-layout-or-address-wrong', {'bs': bs, 'writes': [(w[0], w[1].hex()) for w in h.writes],
                                                             'want': [(a, d.hex()) for a, d in want]})
            continue
        got = []
        mem.read_geo_data(bs, lambda m, d: got.append(d))
        mem.read_calib_data(bs, lambda m, d: got.append(d))
        if len(got) != 2 or not geo_eq(got[0], g) or got[0].valid != g.valid or not calib_eq(got[1], c) or got[1].valid != c.valid:
            ctx.violate('lh:memory-round-trip-differs', {'bs': bs})
        if h.reads[-2:] != [(bs * 0x100, 49), (0x1000 + bs * 0x100, 61)]:
            ctx.violate('lh:read-address-or-length-wrong', {'reads': h.reads[-2:]})
        # the whole chain: objects parsed from the memory image -> configuration file -> objects -> memory image
        if len(got) == 2 and it % 4 == 0:
            from cflib.localization.lighthouse_config_manager import LighthouseConfigFileManager
            dtmp = tempfile.mkdtemp(prefix='vf_c14_')
            try:
                fn = os.path.join(dtmp, 'chain.yaml')
                ctx.count('mon.lh_memory_to_file_to_memory')
                try:
                    LighthouseConfigFileManager.write(fn, geos={bs: got[0]}, calibs={bs: got[1]}, system_type=2)
                    rg, rc, rst = LighthouseConfigFileManager.read(fn)
                    okc = (set(rg) == ({bs} if g.valid else set())) and (set(rc) == ({bs} if c.valid else set())) and \
                        (not g.valid or geo_eq(rg[bs], g)) and (not c.valid or calib_eq(rc[bs], c))
                    if okc and g.valid:
                        h2 = MemHandler(size=0x2000)
                        LighthouseMemory(id=2, type=0x14, size=0x2000, mem_handler=h2).write_geo_data(bs, rg[bs], lambda m, a: None)
                        okc = [(w[0], w[1]) for w in h2.writes] == [(bs * 0x100, ref_g)]
                    if not okc:
                        ctx.violate('lh:memory-file-memory-chain-differs', {'bs': bs})
                except Exception as e:  # noqa
                    ctx.violate('lh:file-written-from-memory-objects-rejected:%s' % type(e).__name__, {'bs': bs, 'error': repr(e)[:300]})
            finally:
                shutil.rmtree(dtmp, ignore_errors=True)
        if it % 3 == 0:
            run_lh_writer(ctx, rnd)
        if it == 0:
            ctx.sample({'lh_geometry_image': ref_g.hex(), 'bs': bs})


def run_yaml(desc, ctx):
    from cflib.crazyflie.param import PersistentParamState
    from cflib.localization.lighthouse_config_manager import LighthouseConfigFileManager
    from cflib.localization.param_io import ParamFileManager
    rnd = random.Random(desc['seed'])
    d = tempfile.mkdtemp(prefix='vf_c14_')
    try:
        for it in range(desc['n']):
            ids_g = rnd.sample(range(16), rnd.randint(0, 6))
            ids_c = rnd.sample(range(16), rnd.randint(0, 6))
            geos = {i: rand_geo(rnd, valid=rnd.random() < 0.85) for i in ids_g}
            calibs = {i: rand_calib(rnd, valid=rnd.random() < 0.85) for i in ids_c}
            st = rnd.choice((1, 2))
            fn = os.path.join(d, 'lh.yaml')
            LighthouseConfigFileManager.write(fn, geos=geos, calibs=calibs, system_type=st)
            rg, rc, rst = LighthouseConfigFileManager.read(fn)
            ctx.evals()
            ctx.count('mon.lh_yaml')
            ctx.nontrivial(('lhyaml', desc['seed'], it))
            wg = {i: g for i, g in geos.items() if g.valid}
            wc = {i: c for i, c in calibs.items() if c.valid}
            ok = rst == st and set(rg) == set(wg) and set(rc) == set(wc) and all(geo_eq(rg[i], wg[i]) and rg[i].valid for i in wg) and \
                all(calib_eq(rc[i], wc[i]) and rc[i].valid for i in wc)
            if not ok:
                ctx.violate('lh:yaml-round-trip-differs', {'geo_ids': sorted(wg), 'calib_ids': sorted(wc), 'read_geo_ids': sorted(rg),
                                                           'read_calib_ids': sorted(rc), 'system_type': (st, rst)})
            # persistent params
            params = {}
            for k in range(rnd.randint(0, 8)):
                isf = rnd.random() < 0.5
                dv = rnd.uniform(-1e3, 1e3) if isf else rnd.randint(-2 ** 31, 2 ** 32)
                stored = rnd.random() < 0.5
                sv = (rnd.uniform(-1, 1) if isf else rnd.randint(0, 255)) if stored else None
                params['g%d.p%d' % (k % 3, k)] = PersistentParamState(stored, dv, sv)
            fn2 = os.path.join(d, 'p.yaml')
            ParamFileManager.write(fn2, params)
            back = ParamFileManager.read(fn2)
            ctx.evals()
            ctx.count('mon.param_yaml')
            if back != params:
                ctx.violate('param:yaml-round-trip-differs', {'written': core.jsonable(params), 'read': core.jsonable(back)})
    finally:
        shutil.rmtree(d, ignore_errors=True)
    ctx.sample({'yaml_round_trips': desc['n']})


# ------------------------------------------------------------------------------------------ write-only layouts
def run_traj(desc, ctx):
    from cflib.crazyflie.mem import CompressedSegment, CompressedStart, Poly4D, TrajectoryMemory
    from cflib.crazyflie.mem.led_timings_driver_memory import LEDTimingsDriverMemory
    rnd = random.Random(desc['seed'])
    for it in range(desc['n']):
        h = MemHandler(size=8192)
        mem = TrajectoryMemory(id=3, type=0x12, size=8192, mem_handler=h)
        npoly = rnd.randint(1, 5)
        ref = b''
        for _ in range(npoly):
            vals = [[struct.unpack('<f', fbits(rnd.uniform(-5, 5)))[0] for _ in range(8)] for _ in range(4)]
            dur = struct.unpack('<f', fbits(rnd.uniform(0.1, 10)))[0]
            mem.trajectory.append(Poly4D(dur, Poly4D.Poly(vals[0]), Poly4D.Poly(vals[1]), Poly4D.Poly(vals[2]), Poly4D.Poly(vals[3])))
            ref += b''.join(struct.pack('<8f', *v) for v in vals) + struct.pack('<f', dur)
        start = rnd.choice((0, 132, 1000))
        fin = []
        n = mem.write_data(lambda m, a: fin.append(a), start_addr=start)
        ctx.evals()
        ctx.count('mon.poly4d')
        ctx.nontrivial(('poly', ref))
        if n != len(ref) or len(ref) != 132 * npoly or [(w[0], w[1]) for w in h.writes] != [(start, ref)] or fin != [start]:
            ctx.violate('traj:poly4d-image-differs-from-layout', {'pieces': npoly, 'returned': n, 'written': [(w[0], len(w[1])) for w in h.writes]})
        else:
            # the same pieces uploaded again to a second slot
            nb = mem.write_data(lambda m, a: fin.append(a), start_addr=start + 2048)
            if nb != len(ref) or [(w[0], w[1]) for w in h.writes] != [(start, ref), (start + 2048, ref)]:
                ctx.violate('traj:poly4d-image-differs-from-layout:repeated-upload', {'pieces': npoly, 'returned': nb})
        # compressed trajectory: start + segments concatenated
        h2 = MemHandler(size=8192)
        mem2 = TrajectoryMemory(id=3, type=0x12, size=8192, mem_handler=h2)
        st = CompressedStart(1.0, -2.0, 0.5, 0.25)
        seg = CompressedSegment(1.5, [0.1, 0.2, 0.3], [0.5], [], [0.1] * 7)
        mem2.trajectory = [st, seg]
        n2 = mem2.write_data(lambda m, a: None)
        want = struct.pack('<hhhh', 1000, -2000, 500, int(math.degrees(0.25) * 10)) + \
            struct.pack('<BH', 2 | 1 << 2 | 0 << 4 | 3 << 6, 1500) + struct.pack('<3h', 100, 200, 300) + struct.pack('<h', 500) + \
            struct.pack('<7h', *[int(math.degrees(0.1) * 10)] * 7)
        if h2.writes[0][1] != want or n2 != len(want):
            ctx.violate('traj:compressed-image-differs-from-layout', {'written': h2.writes[0][1].hex(), 'want': want.hex()})
        # random compressed trajectories, uploaded more than once from the same objects (second trajectory slot,
        # re-upload after a reconnect, second Crazyflie): every image must have the firmware layout
        traj = [CompressedStart(rnd.uniform(-30, 30), rnd.uniform(-30, 30), rnd.uniform(0, 30), rnd.uniform(-3.1, 3.1))]
        spec_t = []
        for _ in range(rnd.randint(1, 6)):
            els = [[rnd.uniform(-30, 30) if ax < 3 else rnd.uniform(-3.1, 3.1) for _ in range(rnd.choice((0, 1, 3, 7)))] for ax in range(4)]
            dur = rnd.choice((0.001, 1.0, 65.535, rnd.uniform(0.01, 60)))
            traj.append(CompressedSegment(dur, els[0], els[1], els[2], els[3]))
            spec_t.append((dur, els))

        def layout_ok(img):
            try:
                vals = struct.unpack('<hhhh', img[:8])
                st0 = traj[0]
                if any(abs(v - w * 1000) >= 1 for v, w in zip(vals[:3], (st0.x, st0.y, st0.z))) or abs(vals[3] - math.degrees(st0.yaw) * 10) >= 1:
                    return 'start'
                pos = 8
                for (dur, els) in spec_t:
                    tb, ms = struct.unpack('<BH', img[pos:pos + 3])
                    pos += 3
                    if abs(ms - dur * 1000) >= 1:
                        return 'duration'
                    for ax in range(4):
                        cnt = {0: 0, 1: 1, 2: 3, 3: 7}[(tb >> (2 * ax)) & 3]
                        if cnt != len(els[ax]):
                            return 'type-bits'
                        got = struct.unpack('<%dh' % cnt, img[pos:pos + 2 * cnt])
                        pos += 2 * cnt
                        for g, w in zip(got, els[ax]):
                            if abs(g - (w * 1000 if ax < 3 else math.degrees(w) * 10)) >= 1:
                                return 'value'
                return None if pos == len(img) else 'length'
            except struct.error:
                return 'truncated'
        h4 = MemHandler(size=8192)
        mem4 = TrajectoryMemory(id=3, type=0x12, size=8192, mem_handler=h4)
        mem4.trajectory = traj
        used = [mem4.write_data(lambda m, a: None), mem4.write_data(lambda m, a: None, start_addr=0x800)]
        h5 = MemHandler(size=8192)
        mem5 = TrajectoryMemory(id=3, type=0x12, size=8192, mem_handler=h5)
        mem5.trajectory = traj
        used.append(mem5.write_data(lambda m, a: None))
        ctx.evals()
        ctx.count('mon.compressed_trajectory_uploads', 3)
        ctx.nontrivial(('ctraj', bytes(h4.writes[0][1])))
        for k, (w, n_) in enumerate(zip(h4.writes + h5.writes, used)):
            why = layout_ok(bytes(w[1]))
            if why or n_ != len(w[1]) or w[0] != (0, 0x800, 0)[k]:
                ctx.violate('traj:compressed-image-differs-from-layout' + (':repeated-upload' if k else ''),
                            {'upload': k, 'what': why, 'bytes_used_returned': n_, 'image_length': len(w[1]), 'segments': len(spec_t)})
                break
        # LED timings
        h3 = MemHandler(size=2048)
        lt = LEDTimingsDriverMemory(id=4, type=0x17, size=2048, mem_handler=h3)
        ref3 = b''
        for _ in range(rnd.randint(0, 10)):
            t = rnd.choice((0, 1, 255, rnd.randrange(256)))
            rgb = {k: rnd.choice((0, 255, rnd.randrange(256))) for k in 'rgb'}
            leds, fade, rot = rnd.randrange(16), rnd.random() < 0.5, rnd.randrange(8)
            if rnd.random() < 0.3:
                # entries at and around the all-zero end marker: dark or nearly dark colours, no flags, no duration
                t = rnd.choice((0, 0, 0, 1))
                rgb = {k: rnd.choice((0, 0, 1, 2, 4, 5, 8)) for k in 'rgb'}
                leds, fade, rot = rnd.choice((0, 0, 0, 1)), False, 0
                ctx.count('mon.led_timing_entries_around_the_end_marker')
            lt.add(t, rgb, leds, fade, rot)
            r5 = (rgb['r'] * 249 + 1014) >> 11
            g6 = (rgb['g'] * 253 + 505) >> 10
            b5 = (rgb['b'] * 249 + 1014) >> 11
            led = r5 << 11 | g6 << 5 | b5
            extra = leds | (int(fade) << 4) | (rot << 5)
            if t != 0 or led != 0 or extra != 0:
                ref3 += bytes([t, led >> 8, led & 0xFF, extra])
        ref3 += bytes(4)
        lt.write_data(lambda m, a: None)
        lt.write_data(lambda m, a: None)
        ctx.evals()
        ctx.count('mon.led_timings')
        ctx.nontrivial(('ledt', ref3))
        if [(w[0], w[1]) for w in h3.writes] != [(0, ref3), (0, ref3)]:
            ctx.violate('ledtiming:sequence-image-differs-from-layout', {'written': h3.writes[0][1].hex() if h3.writes else None,
                                                                        'want': ref3.hex()})
        if it == 0:
            ctx.sample({'poly4d_bytes': len(ref), 'led_timing_image': ref3.hex()})


# ------------------------------------------------------------------------------------------ parsers
def run_deck(desc, ctx):
    from cflib.crazyflie.mem.deck_memory import DeckMemoryManager
    rnd = random.Random(desc['seed'])
    for it in range(desc['n']):
        ver = 3 if rnd.random() < 0.9 else rnd.choice((0, 1, 2, 4, 255))
        img = bytes([ver])
        exp = {}
        for i in range(8):
            b1, b2 = rnd.randrange(128), rnd.randrange(4)
            if rnd.random() < 0.4:
                b1 &= ~1
            rh, rl, ba = rnd.getrandbits(32), rnd.getrandbits(32), rnd.getrandbits(32)
            name = ''.join(rnd.choice('abcdefghijklmnopqrstuvwxyz-0123456789') for _ in range(rnd.randint(0, 18)))
            rec = bytes([b1, b2]) + struct.pack('<LLL', rh, rl, ba) + name.encode().ljust(18, b'\0')
            img += rec
            if b1 & 1:
                exp[i] = (b1, b2, rh, rl, ba, name)
        h = MemHandler(size=0x2000)
        h.image[:len(img)] = img
        mgr = DeckMemoryManager(id=5, type=0x19, size=0x2000, mem_handler=h)
        res, fail = [], []
        mgr.query_decks(lambda d: res.append(d), lambda e: fail.append(e))
        ctx.evals()
        ctx.count('mon.deck_info')
        ctx.nontrivial(('deck', img))
        if ver != 3:
            if res or not fail:
                ctx.violate('deck:unsupported-version-not-rejected', {'version': ver})
            continue
        ok = len(res) == 1 and set(res[0]) == set(exp) and h.reads == [(0, 1 + 8 * 32)]
        if ok:
            for i, (b1, b2, rh, rl, ba, name) in exp.items():
                m = res[0][i]
                if not (m.is_valid and m.is_started == bool(b1 & 2) and m.supports_read == bool(b1 & 4) and
                        m.supports_write == bool(b1 & 8) and m.supports_fw_upgrade == bool(b1 & 16) and
                        m.is_fw_upgrade_required == bool(b1 & 32) and m.is_bootloader_active == bool(b1 & 64) and
                        m.supports_reset_to_fw == bool(b2 & 1) and m.supports_reset_to_bootloader == bool(b2 & 2) and
                        m.required_hash == rh and m.required_length == rl and m.name == name and m._base_address == ba):
                    ok = False
        if not ok:
            ctx.violate('deck:info-section-parsed-wrongly', {'expected_decks': {i: e for i, e in exp.items()},
                                                            'got': sorted(res[0]) if res else None})
    ctx.sample({'deck_info_sections': desc['n']})


def run_loco(desc, ctx):
    from cflib.crazyflie.mem.loco_memory import LocoMemory
    from cflib.crazyflie.mem.loco_memory_2 import LocoMemory2
    rnd = random.Random(desc['seed'])
    for it in range(desc['n']):
        n = rnd.choice((0, 1, 8, rnd.randint(0, 16)))
        h = MemHandler(size=0x4000)
        h.image[0] = n
        anchors = []
        for i in range(n):
            pos = tuple(struct.unpack('<f', fbits(rnd.uniform(-10, 10)))[0] for _ in range(3))
            v = rnd.random() < 0.7
            anchors.append((pos, v))
            h.image[0x1000 + 0x100 * i:0x1000 + 0x100 * i + 13] = struct.pack('<fff?', *pos, v)
        mem = LocoMemory(id=6, type=0x11, size=0x4000, mem_handler=h)
        fin = []
        mem.update(lambda m: fin.append(1))
        ctx.evals()
        ctx.count('mon.loco')
        ctx.nontrivial(('loco', bytes(h.image[:1]) + bytes(h.image[0x1000:0x1000 + 0x100 * n])))
        ok = fin == [1] and mem.valid and mem.nr_of_anchors == n and len(mem.anchor_data) == n and \
            all(tuple(a.position) == p and bool(a.is_valid) == v for a, (p, v) in zip(mem.anchor_data, anchors))
        if not ok:
            ctx.violate('loco:anchor-list-parsed-wrongly', {'n': n, 'got': len(mem.anchor_data), 'done': fin})
        # the same object is read again after the system has changed (anchors added, moved, removed - down to none)
        for again in range(rnd.randint(1, 3)):
            n2 = rnd.choice((0, 0, 1, rnd.randint(0, 16)))
            h.image[0] = n2
            anchors2 = []
            for i in range(n2):
                pos = tuple(struct.unpack('<f', fbits(rnd.uniform(-10, 10)))[0] for _ in range(3))
                v = rnd.random() < 0.7
                anchors2.append((pos, v))
                h.image[0x1000 + 0x100 * i:0x1000 + 0x100 * i + 13] = struct.pack('<fff?', *pos, v)
            fin2 = []
            mem.update(lambda m: fin2.append(1))
            ctx.evals()
            ctx.count('mon.loco_lists_read_again_with_the_same_object')
            if n2 == 0 and n > 0:
                ctx.count('mon.loco_lists_read_again_after_all_anchors_were_removed')
            ok = fin2 == [1] and mem.valid and mem.nr_of_anchors == n2 and len(mem.anchor_data) == n2 and \
                all(tuple(a.position) == p and bool(a.is_valid) == v for a, (p, v) in zip(mem.anchor_data, anchors2))
            if not ok:
                ctx.violate('loco:anchor-list-parsed-wrongly:second-read-with-the-same-object',
                            {'anchors_before': n, 'anchors_now': n2, 'got': len(mem.anchor_data), 'done': fin2})
            n = n2
        # Loco 2
        ids = rnd.sample(range(256), rnd.randint(0, 16))
        act = rnd.sample(ids, rnd.randint(0, len(ids))) if ids else []
        h2 = MemHandler(size=0x12000)
        h2.image[0:1 + len(ids)] = bytes([len(ids)] + ids)
        h2.image[0x1000:0x1000 + 1 + len(act)] = bytes([len(act)] + act)
        adata = {}
        for i in ids:
            pos = tuple(struct.unpack('<f', fbits(rnd.uniform(-10, 10)))[0] for _ in range(3))
            v = rnd.random() < 0.7
            adata[i] = (pos, v)
            h2.image[0x2000 + 0x100 * i:0x2000 + 0x100 * i + 13] = struct.pack('<fff?', *pos, v)
        m2 = LocoMemory2(id=7, type=0x13, size=0x12000, mem_handler=h2)
        f1, f2, f3 = [], [], []
        m2.update_id_list(lambda m: f1.append(1))
        m2.update_active_id_list(lambda m: f2.append(1))
        m2.update_data(lambda m: f3.append(1))
        ctx.evals()
        ctx.count('mon.loco2')
        ok = f1 == [1] and f2 == [1] and m2.ids_valid and m2.active_ids_valid and list(m2.anchor_ids) == ids and \
            list(m2.active_anchor_ids) == act and m2.nr_of_anchors == len(ids)
        if ids:
            ok = ok and f3 == [1] and m2.data_valid and set(m2.anchor_data) == set(ids) and \
                all(tuple(m2.anchor_data[i].position) == adata[i][0] and bool(m2.anchor_data[i].is_valid) == adata[i][1] for i in ids)
        if not ok:
            ctx.violate('loco2:anchor-lists-parsed-wrongly', {'ids': ids, 'active': act, 'got_ids': list(m2.anchor_ids),
                                                             'got_active': list(m2.active_anchor_ids), 'data_ids': sorted(m2.anchor_data)})
    ctx.sample({'loco_lists': desc['n']})


def run(desc, ctx):
    core.setup_path()
    import logging
    logging.disable(logging.CRITICAL)
    globals()['run_' + desc['part']](desc, ctx)

