"""C02 - connection lifecycle is well-formed and never hangs under any link fault.

Engine: detsched (real library threads, deterministic schedules, virtual clock) + simcf.
Observation: every public lifecycle Caller of Crazyflie (recording callbacks), call/return of the
user's open/close calls, library state at quiescence, thread deaths, scheduler deadlock/horizon.
Oracle: the trace specification R1-R9 (see DESIGN.md), checked per attempt.
"""
import random

from vf import core, gen, harness, oracles, refcodec

PROPERTY = 'C02'
LEVEL = 'fault_enumeration'
RULE = ('one descriptor = (device profile, api sync/async, trigger kind in {link error on k-th sent packet, link error '
        'after k-th received packet, user close_link when k packets were sent, close_link from inside a lifecycle '
        'callback}, reporter thread in {driver thread, sending thread}, scheduler policy, line-preemption probability) '
        'and runs EVERY k of the fault-free handshake (measured per profile) x S schedules, each followed by a healthy '
        'reconnect on the same object. distinct_nontrivial = distinct (trigger, k, lifecycle-trace, interleaving '
        'signature) among runs in which the trigger actually fired.')
ASSUMPTIONS = ['link errors are reported the two ways RadioDriver does: from its own thread, or from inside send_packet '
               'in the calling thread', 'virtual-time horizon of 150 s per blocking call stands in for "bounded time"']
REQUIRED = ['mon.reconnects_at_once_while_an_application_thread_registers_requests_for_retransmission', 'mon.reconnects_at_once_while_application_threads_stream_setpoints', 'mon.runs_with_the_link_ending_around_the_packet_that_completes_the_set_up', 'mon.change_notifications_during_the_value_download', 'mon.stale_item_answers_right_in_front_of_the_table_info_answer', 'mon.reconnects_issued_at_once_from_the_failure_notification', 'mon.attempts_with_duplicated_answers', 'mon.close_in_a_port_or_parameter_callback_of_the_application', 'mon.attempts', 'mon.trigger_fired', 'mon.reconnects', 'mon.fault_before_first_packet',
            'mon.fault_mid_setup', 'mon.fault_after_connected', 'mon.close_in_callback', 'mon.sync_api', 'mon.async_api',
            'mon.line_preempted_runs', 'mon.three_cycle_histories', 'mon.fault_during_driver_connect']
DESC_TIMEOUT = 1500
BATCHES_PER_JOB = 4

LIFE = ('link_established', 'connected', 'fully_connected')
# statements of the code that handles the end of a connection are pre-empted more often in half of the pre-empted runs
FOCUS = ('_disconnected', '_connected', '_connect_failed', '_all_params_updated', 'open_link', 'close_link', '_link_error_cb',
         '_remove_callbacks', '_add_callbacks', 'wait_for_params', '_check_for_answers', '_cancel_pending_answers')


def _mems(kind):
    if kind == 0:
        return []
    i2c = refcodec.i2c_image(1, 80, 2, 0.0, 0.0, 0xE7E7E7E7E7)
    ow = refcodec.ow_image(0xBC, 0x0A, 0x0C, [(1, b'bcFlow2'), (2, b'A')])
    m = [{'type': 0, 'size': 32, 'data': (i2c + bytes(32 - len(i2c))).hex()},
         {'type': 1, 'size': 112, 'addr': '0d000000deadbeef', 'data': ow.hex()}]
    if kind == 2:
        m.append({'type': 0x12, 'size': 4096})
    return m


def cases(tier, seed):
    rnd = random.Random(seed * 104729 + 11)
    out = []
    n = 0
    profiles = [(2, 3, 10, 1), (0, 0, 10, 0), (1, 2, 3, 1), (3, 5, 10, 2)]
    scheds = [('rtb', 0.0), ('random', 0.0), ('random', 0.02), ('pct', 0.0), ('random', 0.2)]
    S = 1 if tier == 'quick' else 6
    for (nlog, nparam, proto, mk) in profiles:
        for api in ('sync', 'async'):
            for trig in ('fault_tx', 'fault_rx', 'close_main', 'close_cb', 'fault_connect', 'close_portcb', 'close_paramcb'):
                for reporter in (('driver', 'sender') if trig == 'fault_tx' else ('driver',)):
                    picks = scheds if tier == 'thorough' else [scheds[n % len(scheds)], scheds[(n + 2) % len(scheds)]]
                    for (pol, lp) in picks:
                        n += 1
                        out.append({'seed': seed * 1000003 + n, 'nlog': nlog, 'nparam': nparam, 'proto': proto,
                                    'mems': mk, 'api': api, 'trigger': trig, 'reporter': reporter, 'sched': pol,
                                    'line_p': lp, 'S': S, 'resend': rnd.random() < 0.3, 'prefault': n % 3 == 0, 'drain': n % 2 == 1,
                                    'dup': n % 4 == 2, 'notify': n % 3 == 1})
    for (nlog, nparam, proto, mk) in profiles:
        for trig in ('fault_rx', 'close_main'):
            for lp in (0.02, 0.1):
                n += 1
                out.append({'seed': seed * 1000003 + n, 'nlog': nlog, 'nparam': nparam, 'proto': proto, 'mems': mk, 'api': 'sync',
                            'trigger': trig, 'reporter': 'driver', 'sched': 'random', 'line_p': lp, 'S': 36 if tier == 'quick' else 90,
                            'resend': False, 'prefault': False, 'drain': n % 2 == 1, 'dup': False, 'at_connected': True})
    for i, (nlog, nparam, proto, mk) in enumerate(profiles):
        for reporter in ('sender', 'driver'):
            for (pol, lp) in (scheds if tier == 'thorough' else (scheds[0], scheds[2], scheds[4])):
                n += 1
                out.append({'part': 'autoreconnect', 'seed': seed * 1000003 + n, 'nlog': nlog, 'nparam': nparam, 'proto': proto, 'mems': mk,
                            'reporter': reporter, 'sched': pol, 'line_p': lp, 'resend': n % 3 == 0, 'kmax': 10, 'stream': n % 2 == 0})
    return out


# ------------------------------------------------------------------------------------------------
class Obs:
    def __init__(self):
        self.events = []      # (name, t, thread, extra)
        self.snaps = []


def one_run(desc, k, sseed, calibrate=False):
    """One history: attempt 1 with the trigger at position k, then a healthy reconnect."""
    from vf import detsched as ds, simcf, simlink
    from cflib.crazyflie import Crazyflie, State
    from cflib.crazyflie.syncCrazyflie import SyncCrazyflie
    prof = gen.profile(desc['seed'] // 7, desc['nlog'], desc['nparam'], proto=desc['proto'], mems=_mems(desc['mems']))
    if desc.get('dup') and desc['proto'] >= 4:
        # several parameters with an extended type (the persistence marker is asked for one parameter at a time)
        for i, p in enumerate(prof['param'][:-1] if len(prof['param']) > 2 else prof['param']):
            p['ext'] = True
            p['pers'] = i % 3 != 1
    dev = simcf.SimCF(prof)
    spec = simlink.LinkSpec(dev, needs_resending=desc['resend'])
    spec.deliver_queued_after_close = bool(desc.get('drain'))
    if desc.get('drain') and (desc['seed'] // 2) % 2 == 0:
        spec.latency = 0.0       # answers are in the driver's queue the moment the request has gone out
    if desc.get('dup'):
        # every fourth answer arrives twice (the acknowledgement of the first copy was lost on the air)
        drnd = random.Random(desc['seed'] ^ 0xD0B1)
        # the copy comes right behind the original or (half of these cases) late: several answers further on, when the
        # library is already in a later phase of the connection sequence
        gaps = (0.0, 0.0, 0.0004) if (desc['seed'] // 3) % 2 else (0.0, 0.0004, 0.003, 0.011, 0.05)
        spec.reply_policy = lambda sp, n, h, d: [(0.0, h, d)] + ([(drnd.choice(gaps), h, d)] if drnd.random() < 0.25 else [])
    res = {'violations': [], 'fired': False, 'phase': None, 'kmax': None, 'overlap': False}

    def with_notifications(base):
        """The firmware tells about a parameter that was changed on board (app layer, deck driver, another client) whenever
        that happens - also while the values are still being fetched, about a parameter whose value is already here."""
        if not (desc.get('notify') and desc['proto'] >= 4 and len(dev.params) >= 2):
            return base
        nrnd = random.Random(desc['seed'] ^ 0x70F1)

        def pol(sp, n, h, d):
            outs = base(sp, n, h, d) if base is not None else [(0.0, h, d)]
            if (h >> 4) & 0xF == 2 and h & 3 == 1 and len(d) >= 3 and nrnd.random() < 0.35:
                idx = d[0] | (d[1] << 8)
                if 0 < idx < len(dev.params):
                    hh, dd = dev.value_updated_packet(nrnd.randrange(idx))
                    outs = [(0.0, hh, dd)] + outs
                    res['notified'] = res.get('notified', 0) + 1
            return outs
        return pol
    spec.reply_policy = with_notifications(spec.reply_policy)
    uri = 'sim://c02'
    simlink.SIMS[uri] = spec
    exp_log, exp_param = oracles.expected_log(dev), oracles.expected_param(dev)
    trig = desc['trigger']
    ob = Obs()

    def V(mech, detail):
        res['violations'].append((mech, detail))

    def fn(s):
        dev.now = lambda: s.now
        cf = Crazyflie()
        attempt = {'n': 0, 'trigger_at': None}
        outcome = ds.Event()

        def on_event(ev):
            ob.events.append((attempt['n'],) + ev)
            name = ev[0]
            if name == 'connected':
                if attempt['n'] == 1 and 'k_connected' not in res:
                    res['k_connected'] = (spec.sess_tx, spec.sess_rx)
                ob.snaps.append((attempt['n'], oracles.snapshot_toc(cf.log.toc), oracles.snapshot_toc(cf.param.toc)))
            if name == 'fully_connected':
                missing = [(p['g'], p['n']) for p in dev.params
                           if p['n'] not in cf.param.values.get(p['g'], {})]
                if missing:
                    V('R4:fully_connected-without-all-values', {'missing': missing[:5]})
            if name in ('fully_connected', 'connection_failed', 'disconnected'):
                outcome.set()
            if name == 'connected' and not dev.params:
                outcome.set()
            if trig == 'close_cb' and attempt['n'] == 1 and not calibrate and attempt['trigger_at'] is None:
                # the user closes the link from inside the k-th lifecycle callback (dispatcher thread)
                idx = len([e for e in ob.events if e[0] == 1 and e[1] in LIFE])
                if name in LIFE and idx == k:
                    attempt['trigger_at'] = s.now
                    res['fired'] = True
                    res['phase'] = name
                    ob.events.append((1, 'close_call', s.now, 'cb', ()))
                    cf.close_link()
                    ob.events.append((1, 'close_ret', s.now, 'cb', ()))
        def phase_now():
            seen = [e[1] for e in ob.events if e[0] == attempt['n'] and e[1] in LIFE]
            return seen[-1] if seen else 'requested'
        rec = harness.Recorder(cf, on_event=on_event)   # noqa
        if trig in ('close_portcb', 'close_paramcb') and not calibrate:
            # the application closes the link from inside one of ITS callbacks on the dispatcher thread: a port callback
            # registered before open_link (so it runs before the library's own, later registered, receivers of the same
            # packet), or a parameter-update callback - at the k-th packet / update of the attempt
            seen_n = {'n': 0}

            def close_from_dispatcher(*_a):
                if attempt['n'] != 1 or attempt['trigger_at'] is not None:
                    return
                seen_n['n'] += 1
                if seen_n['n'] == k:
                    attempt['trigger_at'] = s.now
                    res['fired'] = True
                    res['phase'] = phase_now()
                    ob.events.append((1, 'close_call', s.now, 'cb', ()))
                    cf.close_link()
                    ob.events.append((1, 'close_ret', s.now, 'cb', ()))
            if trig == 'close_portcb':
                for port in (2, 4, 5, 13):
                    cf.add_port_callback(port, close_from_dispatcher)
            else:
                cf.param.all_update_callback.add_callback(close_from_dispatcher)
        # --- detector for the one concurrency pattern the library does not synchronise: a disconnect
        # (link error or close_link) handled in one thread while the dispatcher thread is in the middle of
        # dispatching a received packet.
        import threading as _thr
        handling = {'n': 0}

        def guard(fn):
            def w(*a, **kw):
                me = _thr.current_thread()
                if spec.dispatching is not None and spec.dispatching is not me:
                    res['overlap'] = True
                handling['n'] += 1
                try:
                    return fn(*a, **kw)
                finally:
                    handling['n'] -= 1
            return w
        cf._link_error_cb = guard(cf._link_error_cb)
        cf.close_link = guard(cf.close_link)

        def on_dispatch_start():
            if handling['n'] > 0:
                res['overlap'] = True
        spec.on_dispatch_start = on_dispatch_start
        scf = SyncCrazyflie(uri, cf=cf) if desc['api'] == 'sync' else None

        # ---------------- attempt 0 (optional): an earlier session of the same object that was cut short
        if desc.get('prefault') and not calibrate:
            prnd = random.Random(sseed ^ 0xA5A5)
            attempt['n'] = 0
            kind0 = prnd.choice(('fault_rx', 'fault_tx', 'close'))
            k0 = prnd.randint(1, 30)
            spec.fail_reporter = prnd.choice(('driver', 'sender')) if kind0 == 'fault_tx' else 'driver'
            if kind0 == 'fault_rx':
                spec.fail_after_rx = k0
            elif kind0 == 'fault_tx':
                spec.fail_after_tx = k0
            s.horizon = s.now + 150.0
            ob.events.append((0, 'open_call', s.now, 'main', ()))
            raised0 = None
            try:
                if scf is not None:
                    scf.open_link()
                else:
                    cf.open_link(uri)
                    outcome.wait(20.0)
            except ds.SchedAbort:
                raise
            except Exception as e:  # noqa
                raised0 = repr(e)[:200]
            ob.events.append((0, 'open_ret', s.now, 'main', (raised0,)))
            s.sleep(prnd.choice((0.0, 0.05, 1.2)))
            if cf.link is not None or (scf is not None and scf.is_link_open()):
                ob.events.append((0, 'close_call', s.now, 'main', ()))
                (scf.close_link() if scf is not None and scf.is_link_open() else cf.close_link())
                ob.events.append((0, 'close_ret', s.now, 'main', ()))
            # quiescence before the judged attempt (events are attributed to attempts by time)
            s.horizon = s.now + 150.0
            s.sleep(3.0)
            spec.fail_after_tx = spec.fail_after_rx = None
            spec.sess_tx = spec.sess_rx = 0     # the closer thread of attempt 1 polls the per-session counter
            res['faults_before'] = spec.faults_fired
            outcome.clear()
            if not desc.get('dup'):
                # an item answer to the session that was cut short may still arrive - right in front of the answer to
                # the new session's question about that table
                srng = random.Random(sseed ^ 0x51A1E)

                def item_before_info(sp, n, h, d):
                    outs = [(0.0, h, d)]
                    port = (h >> 4) & 0xF
                    if port in (2, 5) and h & 3 == 0 and d and d[0] in ((3,) if dev.proto >= 4 else (1,)) and srng.random() < 0.5:
                        count, item = (len(dev.log_toc), dev.log_item) if port == 5 else (len(dev.params), dev.param_item)
                        if count:
                            import struct as _st2
                            idx = srng.randrange(count)
                            dd = (bytes([2]) + _st2.pack('<H', idx) + item(idx)) if dev.proto >= 4 else (bytes([0, idx]) + item(idx))
                            outs = [(0.0, simcf.hdr(port, 0), dd)] + outs
                            res['stale_item_before_info'] = res.get('stale_item_before_info', 0) + 1
                    return outs
                spec.reply_policy = with_notifications(item_before_info)
        # ---------------- attempt 1
        attempt['n'] = 1
        spec.fail_reporter = desc['reporter']
        if not calibrate:
            if trig == 'fault_tx':
                spec.fail_after_tx = k
            elif trig == 'fault_rx':
                spec.fail_after_rx = k
            elif trig == 'fault_connect':
                spec.fail_in_connect = ('sync', 'thread', 'race')[(k - 1) % 3]
        closer = None
        if trig == 'close_main' and not calibrate:
            def closer_fn():
                g = 0
                while spec.sess_tx < k and g < 100000 and not outcome.is_set():
                    s.sleep(0.0004)
                    g += 1
                if spec.sess_tx >= k:
                    res['fired'] = True
                    res['phase'] = phase_now()
                    attempt['trigger_at'] = s.now
                    ob.events.append((1, 'close_call', s.now, 'closer', ()))
                    if scf is not None and scf.is_link_open():
                        scf.close_link()
                    else:
                        cf.close_link()
                    ob.events.append((1, 'close_ret', s.now, 'closer', ()))
            import threading
            closer = threading.Thread(target=closer_fn)
            closer.start()
        s.horizon = s.now + 150.0
        ob.events.append((1, 'open_call', s.now, 'main', ()))
        raised = None
        try:
            if scf is not None:
                scf.open_link()
            else:
                cf.open_link(uri)
                outcome.wait(100.0)
        except ds.SchedAbort:
            raise
        except Exception as e:  # noqa
            raised = repr(e)[:200]
        ob.events.append((1, 'open_ret', s.now, 'main', (raised,)))
        if scf is not None and raised is None and dev.params and trig not in ('close_cb', 'close_portcb', 'close_paramcb'):
            # bounded wait for the parameter download (wait_for_params has no timeout of its own)
            outcome.wait(60.0)
        if calibrate:
            s.sleep(0.3)
            res['kmax'] = (spec.sess_tx, spec.sess_rx)
        if closer is not None:
            s.horizon = s.now + 150.0
            closer.join()
        s.horizon = s.now + 150.0
        s.sleep(3.0)
        if spec.faults_fired > res.get('faults_before', 0):
            res['fired'] = True
            if res['phase'] is None:
                res['phase'] = 'see-trace'
        # ---------------- R8: quiescent state after a fault / close
        triggered = res['fired']
        if triggered:
            st = {'state': cf.state, 'link_is_none': cf.link is None, 'send_lock_locked': cf._send_lock.locked(),
                  'mem_lock_locked': cf.mem._write_requests_lock.locked(), 'incoming_alive': cf.incoming.is_alive()}
            res['state_after'] = st
            if trig == 'fault_connect':
                # the error was reported before open_link had the driver object: open_link stores it afterwards; the
                # statement is judged on the state and the callbacks (the stored dead driver is recorded, not judged)
                res['zombie_link'] = cf.link is not None
                if cf.state != State.DISCONNECTED:
                    V('R8:not-disconnected-after-trigger', st)
            elif cf.state != State.DISCONNECTED or cf.link is not None:
                V('R8:not-disconnected-after-trigger', st)
            if st['send_lock_locked']:
                V('R8:send-lock-left-locked', st)
            if st['mem_lock_locked']:
                V('R8:mem-write-lock-left-locked', st)
        else:
            # healthy attempt: close it normally
            ob.events.append((1, 'close_call', s.now, 'main', ()))
            (scf.close_link() if scf is not None else cf.close_link())
            ob.events.append((1, 'close_ret', s.now, 'main', ()))
            s.sleep(1.5)
        if scf is not None and scf.is_link_open():
            # the application still believes the link is open: it closes it (must return)
            ob.events.append((1, 'close_call', s.now, 'main', ()))
            scf.close_link()
            ob.events.append((1, 'close_ret', s.now, 'main', ()))
            s.sleep(1.5)
        res['deaths_1'] = list(s.deaths)
        if calibrate:
            return
        # ---------------- attempt 2: the same object must connect again over a healthy link
        attempt['n'] = 2
        spec.fail_after_tx = spec.fail_after_rx = None
        spec.fail_in_connect = None
        outcome.clear()
        s.horizon = s.now + 200.0
        ob.events.append((2, 'open_call', s.now, 'main', ()))
        raised = None
        try:
            if scf is not None:
                scf.open_link()
            else:
                cf.open_link(uri)
            outcome.wait(100.0)
        except ds.SchedAbort:
            raise
        except Exception as e:  # noqa
            raised = repr(e)[:200]
        ob.events.append((2, 'open_ret', s.now, 'main', (raised,)))
        s.sleep(0.5)
        ob.events.append((2, 'close_call', s.now, 'main', ()))
        (scf.close_link() if scf is not None and scf.is_link_open() else cf.close_link())
        ob.events.append((2, 'close_ret', s.now, 'main', ()))
        s.sleep(1.5)
        st2 = {'state': cf.state, 'link_is_none': cf.link is None, 'send_lock_locked': cf._send_lock.locked()}
        if cf.state != State.DISCONNECTED or cf.link is not None or st2['send_lock_locked']:
            V('R8:not-disconnected-after-final-close', st2)

    _, abort, s = harness.sched_case(fn, seed=sseed, policy=desc['sched'], line_p=desc['line_p'], horizon=150.0, line_focus=FOCUS, line_focus_p=0.35 if (desc['line_p'] > 0 and (sseed % 2 == 0 or desc.get('at_connected'))) else 0.0,
                                     max_steps=4_000_000)
    res['abort'] = abort
    res['sched'] = s
    res['spec'] = spec
    res['dev'] = dev
    res['exp'] = (exp_log, exp_param)
    res['ob'] = ob
    return res


# ------------------------------------------------------------------------------------------------
def judge(desc, k, res, ctx, rp):
    """Apply the trace specification to one run."""
    ob, s, abort = res['ob'], res['sched'], res['abort']
    trig, api = desc['trigger'], desc['api']
    out = list(res['violations'])

    def V(mech, detail):
        out.append((mech, detail))

    def phase_of_trace(evs):
        seen = [e[1] for e in evs if e[1] in LIFE]
        return seen[-1] if seen else 'requested'

    ev1 = [e for e in ob.events if e[0] == 1]
    ev2 = [e for e in ob.events if e[0] == 2]
    names1 = [e[1] for e in ev1]
    ctxd = {'k': k, 'trigger': trig, 'reporter': desc['reporter'], 'api': api}

    if abort is not None:
        # which blocking call never came back?
        opened = [e for e in ob.events if e[1] in ('open_call', 'open_ret', 'close_call', 'close_ret') and e[3] == 'main']
        last = opened[-1] if opened else None
        what = 'harness-wait'
        if last is not None and last[1] == 'open_call':
            what = ('%s.open_link' % ('SyncCrazyflie' if api == 'sync' else 'Crazyflie')) + '#%d' % last[0]
        elif last is not None and last[1] == 'close_call':
            what = 'close_link#%d(%s)' % (last[0], last[3])
        blocked = sorted({'%s<-%s' % (t['thread'].split('#')[0], t['waiting_on']) for t in abort.table
                          if t['state'] == 'blocked' and t['deadline'] is None})
        V('R8:hang:%s:%s:phase-%s' % (type(abort).__name__, what, phase_of_trace(ev1 if last is None or last[0] == 1 else ev2)),
          dict(ctxd, abort=str(abort), blocked_forever=blocked, threads=abort.table, trace=[e[:4] for e in ob.events][-25:]))
    for (name, exc, tb) in s.deaths:
        V('R8:thread-died:%s:%s' % (name.split('#')[0], exc.split('(')[0]), dict(ctxd, traceback=tb))

    def check_attempt(evs, n, healthy):
        names = [e[1] for e in evs]
        life = [x for x in names if x in Recorder_NAMES]
        if not life or life[0] != 'connection_requested':
            V('R1:first-event-not-connection_requested', dict(ctxd, attempt=n, trace=life[:6]))
        for nm in ('connection_requested', 'link_established', 'connected', 'fully_connected', 'connection_failed',
                   'connection_lost'):
            if life.count(nm) > 1:
                V('R3:%s-delivered-%d-times' % (nm, life.count(nm)), dict(ctxd, attempt=n, trace=life))
        if 'connection_failed' in life and 'link_established' in life:
            V('R2:connection_failed-and-link_established-in-one-attempt', dict(ctxd, attempt=n, trace=life))
        pos = {nm: life.index(nm) for nm in LIFE if nm in life}
        if 'connected' in pos and ('link_established' not in pos or pos['link_established'] > pos['connected']):
            V('R3:connected-before-link_established', dict(ctxd, attempt=n, trace=life))
        if 'fully_connected' in pos and ('connected' not in pos or pos['connected'] > pos['fully_connected']):
            V('R3:fully_connected-before-connected', dict(ctxd, attempt=n, trace=life))
        if 'disconnected' in life:
            first = life.index('disconnected')
            late = [x for x in life[first + 1:] if x in LIFE]
            if late:
                V('R7:%s-after-disconnected' % late[0], dict(ctxd, attempt=n, trace=life))
        if 'connection_lost' in life:
            i = life.index('connection_lost')
            if i == 0 or life[i - 1] != 'disconnected':
                V('R5:connection_lost-not-preceded-by-disconnected', dict(ctxd, attempt=n, trace=life))
        # R6: every close_link call delivers exactly one disconnected before it returns
        i = 0
        while i < len(evs):
            if evs[i][1] == 'close_call':
                j = i + 1
                cnt = 0
                while j < len(evs) and not (evs[j][1] == 'close_ret' and evs[j][3] == evs[i][3]):
                    if evs[j][1] == 'disconnected':
                        # a link failure hit by close_link's own last transmission accounts for one
                        # (disconnected, connection_lost) pair of its own; the close still owes exactly one
                        # (paired by delivering thread: the two deliveries may interleave)
                        nxt = [e for e in evs[j + 1:] if e[1] in Recorder_NAMES and e[3] == evs[j][3]]
                        if not (nxt and nxt[0][1] == 'connection_lost'):
                            cnt += 1
                    j += 1
                if j < len(evs) and cnt != 1:
                    V('R6:close_link-delivered-%d-disconnected' % cnt, dict(ctxd, attempt=n, caller=evs[i][3],
                                                                             trace=names))
            i += 1
        return life

    ev0 = [e for e in ob.events if e[0] == 0]
    if ev0:
        check_attempt(ev0, 0, False)
        ctx.count('mon.three_cycle_histories')
    life1 = check_attempt(ev1, 1, not res['fired'])
    # R4 tables at connected
    exp_log, exp_param = res['exp']
    for (n, lsnap, psnap) in ob.snaps:
        for m, d in oracles.diff_table('log', lsnap, exp_log) + oracles.diff_table('param', psnap, exp_param):
            V('R4:at-connected:' + m, dict(ctxd, attempt=n, **d))
        ctx.count('mon.tables_at_connected')
    # R5: outcome of an injected fault
    if trig in ('fault_tx', 'fault_rx', 'fault_connect') and res['spec'].faults_fired > res.get('faults_before', 0):
        nd, nl, nf = life1.count('disconnected'), life1.count('connection_lost'), life1.count('connection_failed')
        if 'link_established' in life1:
            if nd != 1 or nl != 1:
                V('R5:fault-after-first-packet:disconnected=%d,connection_lost=%d' % (nd, nl),
                  dict(ctxd, trace=life1, state_after=res.get('state_after')))
            if nf:
                V('R5:fault-after-first-packet:connection_failed-delivered', dict(ctxd, trace=life1))
        else:
            if nf != 1 or nd or nl:
                V('R5:fault-before-first-packet:failed=%d,disconnected=%d,lost=%d' % (nf, nd, nl),
                  dict(ctxd, trace=life1, state_after=res.get('state_after')))
    # sync open_link contract: returns only when connected was signalled, raises otherwise
    for e in ob.events:
        if e[1] == 'open_ret' and api == 'sync':
            n = e[0]
            before = [x[1] for x in ob.events[:ob.events.index(e)] if x[0] == n]
            if e[4][0] is None and 'connected' not in before:
                V('R3:sync-open_link-returned-without-connected', dict(ctxd, attempt=n, trace=before))
    # R9 healthy reconnect
    if abort is None:
        life2 = check_attempt(ev2, 2, True)
        want = ['connection_requested', 'link_established', 'connected'] + (['fully_connected'] if res['dev'].params else [])
        got = [x for x in life2 if x in want]
        if got != want:
            V('R9:reconnect-did-not-complete:got-%s' % ('+'.join(x for x in life2 if x != 'connection_requested') or 'nothing'),
              dict(ctxd, trace=life2, first_attempt=life1, open_ret=[e[4] for e in ev2 if e[1] == 'open_ret']))
        ctx.count('mon.reconnects')
    # ---- report
    seen = set()
    for mech, detail in out:
        if res['overlap'] and not mech.startswith(('R8:thread-died', 'R8:send-lock', 'R8:mem-write-lock')):
            detail = dict(detail, rule_broken=mech)
            mech = 'race:disconnect-handled-while-dispatcher-mid-packet'
        if mech in seen:
            continue
        seen.add(mech)
        ctx.violate(mech, detail, replay=rp)
    return life1


Recorder_NAMES = ('connection_requested', 'link_established', 'connected', 'fully_connected', 'connection_failed',
                  'disconnected', 'connection_lost')


def run_autoreconnect(desc, ctx):
    """The application reconnects the same object at once when it is told that the link failed - from inside the
    failure callback, or from a thread that callback wakes - while the library may still be unwinding the failed
    attempt.  The second attempt is well-formed and reaches fully_connected."""
    from vf import detsched as ds, simcf, simlink
    from cflib.crazyflie import Crazyflie
    prof = gen.profile(desc['seed'] // 7, desc['nlog'], desc['nparam'], proto=desc['proto'], mems=_mems(desc['mems']))
    for k in range(1, desc['kmax'] + 1):
        for way in ('callback', 'thread'):
            dev = simcf.SimCF(prof)
            spec = simlink.LinkSpec(dev, needs_resending=desc['resend'])
            uri = 'sim://c02r'
            simlink.SIMS[uri] = spec
            ob = {'ev': [], 'reopened_at': None, 'problems': []}

            def fn(s):
                dev.now = lambda: s.now
                cf = Crazyflie()
                go = ds.Event()
                full = ds.Event()

                def on_event(ev):
                    ob['ev'].append(ev)
                    if ev[0] in ('connection_failed', 'connection_lost') and ob['reopened_at'] is None:
                        ob['reopened_at'] = len(ob['ev'])
                        spec.fail_after_tx = None
                        if way == 'callback':
                            cf.open_link(uri)
                        else:
                            go.set()
                    if ev[0] == 'fully_connected' or (ev[0] == 'connected' and not dev.params):
                        full.set()
                rec = harness.Recorder(cf, on_event=on_event)   # noqa
                import threading
                # the same detector as in the main part: a disconnect handled in one thread while the dispatcher thread is
                # in the middle of a packet is the one pattern the library does not synchronise (known finding)
                handling = {'n': 0}

                def guard(f):
                    def w(*a, **kw):
                        me = threading.current_thread()
                        if spec.dispatching is not None and spec.dispatching is not me:
                            ob['overlap'] = True
                        handling['n'] += 1
                        try:
                            return f(*a, **kw)
                        finally:
                            handling['n'] -= 1
                    return w
                cf._link_error_cb = guard(cf._link_error_cb)
                cf.close_link = guard(cf.close_link)

                def on_dispatch_start():
                    if handling['n'] > 0:
                        ob['overlap'] = True
                spec.on_dispatch_start = on_dispatch_start

                def reopener():
                    go.wait(200.0)
                    if go.is_set():
                        cf.open_link(uri)
                th = threading.Thread(target=reopener)
                if way == 'thread':
                    th.start()
                spec.fail_after_tx = k
                spec.fail_reporter = desc['reporter']
                if desc.get('stream'):
                    spec.fail_send_blocks = (0.0, 0.5, 2.0)[(desc['seed'] + k) % 3]
                cf.open_link(uri)
                stop = {'on': False}
                streamers = []
                if desc.get('stream'):
                    # application threads that stream setpoints all the time (they contend for the link with the library's own
                    # senders; the transmission that fails may be one of theirs)
                    def streamer():
                        while not stop['on']:
                            try:
                                cf.commander.send_setpoint(0.0, 0.0, 0.0, 0)
                                ob['streamed'] = ob.get('streamed', 0) + 1
                            except Exception as e:  # noqa
                                ob.setdefault('stream_exc', repr(e)[:200])
                            s.sleep(0.003)
                    streamers = [threading.Thread(target=streamer) for _ in range(2)]
                    if desc['resend']:
                        # ... and one that keeps asking an application port for something (requests with an expected answer
                        # on a link without delivery guarantee: they are registered for retransmission while packets come in)
                        def poller():
                            from cflib.crtp.crtpstack import CRTPPacket
                            for n_ in range(40):
                                if stop['on']:
                                    break
                                pk_ = CRTPPacket()
                                pk_.set_header(9, 1)
                                pk_.data = bytes([0x40 + n_ % 64, n_])
                                try:
                                    cf.send_packet(pk_, expected_reply=(0x40 + n_ % 64, n_), timeout=1.0)
                                    ob['polled'] = ob.get('polled', 0) + 1
                                except Exception as e:  # noqa
                                    ob.setdefault('stream_exc', repr(e)[:200])
                                s.sleep(0.001)
                        streamers.append(threading.Thread(target=poller))
                    for t_ in streamers:
                        t_.start()
                full.wait(200.0)
                s.sleep(2.0)
                stop['on'] = True
                for t_ in streamers:
                    t_.join()
                ob['faults'] = spec.faults_fired
                ob['link_open'] = cf.link is not None
                ob['state'] = str(cf.state)
                if way == 'thread':
                    go.set()
                    th.join()
                cf.close_link()
                s.sleep(0.5)
            _, abort, sch = harness.sched_case(fn, seed=desc['seed'] * 13 + k, policy=desc['sched'], line_p=desc['line_p'], horizon=1500.0,
                                               max_steps=12_000_000, line_focus=FOCUS, line_focus_p=0.35 if desc['line_p'] > 0 else 0.0)
            ctx.evals()
            rp = dict(desc, only_k=k)
            if abort is not None and not ob.get('faults') and spec.faults_fired:
                # the run never got as far as noting that the fault had fired: it hung after the fault
                ctx.violate('R9:reconnect-at-once:hang', {'k': k, 'reporter': desc['reporter'], 'reconnect_from': way, 'events': [e[0] for e in ob['ev']][:16],
                                                          'abort': str(abort), 'threads': getattr(abort, 'table', None)}, replay=rp)
                continue
            if not ob.get('faults'):
                continue
            ctx.count('mon.reconnects_issued_at_once_from_the_failure_notification')
            if ob.get('streamed'):
                ctx.count('mon.reconnects_at_once_while_application_threads_stream_setpoints')
            if ob.get('polled'):
                ctx.count('mon.reconnects_at_once_while_an_application_thread_registers_requests_for_retransmission')
            if ob.get('stream_exc'):
                ctx.violate('R8:setpoint-sender-got-an-exception', {'error': ob['stream_exc'], 'k': k}, replay=rp)
            names = [e[0] for e in ob['ev']]
            info = {'k': k, 'reporter': desc['reporter'], 'reconnect_from': way, 'events': names[:16]}
            ctx.nontrivial(('autoreconnect', k, way, desc['reporter'], tuple(names), sch.signature()))
            if abort is not None:
                ctx.violate('R9:reconnect-at-once:hang', dict(info, abort=str(abort), threads=getattr(abort, 'table', None)), replay=rp)
                continue
            for (name, exc, tb) in sch.deaths:
                ctx.violate('R8:thread-died:%s' % exc.split('(')[0], dict(info, traceback=tb), replay=rp)
            second = names[ob['reopened_at']:] if ob['reopened_at'] is not None else []
            second = [n for n in second if n not in ('disconnected',) or second.index(n) > 0]
            want = ['connection_requested', 'link_established', 'connected'] + (['fully_connected'] if dev.params else [])
            got = [n for n in second if n in want]
            if got != want or any(n in ('connection_failed', 'connection_lost') for n in second):
                mech = 'R9:reconnect-at-once-did-not-complete:got-' + '+'.join(second[:5] or ['nothing'])
                if ob.get('overlap'):
                    info = dict(info, rule_broken=mech)
                    mech = 'race:disconnect-handled-while-dispatcher-mid-packet'
                    ctx.count('mon.runs_with_concurrent_dispatch_and_disconnect')
                ctx.violate(mech, info, replay=rp)


def run(desc, ctx):
    harness.init()
    if desc.get('part') == 'autoreconnect':
        return run_autoreconnect(desc, ctx)
    if 'only_k' in desc:
        ks = [desc['only_k']]
        seeds = [desc['only_sseed']]
    else:
        cal = one_run(desc, 0, desc['seed'], calibrate=True)
        if cal['abort'] is not None or cal['kmax'] is None:
            ctx.violate('R9:fault-free-connect-hangs', {'abort': str(cal['abort']), 'threads': getattr(cal['abort'], 'table', None)})
            return
        ktx, krx = cal['kmax']
        if desc.get('at_connected'):
            # the link dies / is closed around the very packet that makes the library signal `connected`
            ctx_k = cal.get('k_connected') or (ktx, krx)
            ktx, krx = ctx_k
        if desc['trigger'] == 'fault_tx':
            ks = list(range(1, ktx + 2))
        elif desc['trigger'] == 'fault_rx':
            ks = list(range(1, krx + 2)) if not desc.get('at_connected') else [max(1, krx - 1), krx, krx + 1]
        elif desc['trigger'] == 'close_main':
            ks = list(range(1, ktx + 1)) if not desc.get('at_connected') else [max(1, ktx - 1), ktx, ktx + 1]
        elif desc['trigger'] == 'fault_connect':
            ks = list(range(1, 10))
        elif desc['trigger'] == 'close_portcb':
            ks = list(range(1, krx + 1))
        elif desc['trigger'] == 'close_paramcb':
            ks = list(range(1, desc['nparam'] + 1))
        else:
            ks = [1, 2, 3]
        seeds = None
    first = True
    for k in ks:
        for j in range(desc['S'] if seeds is None else 1):
            sseed = (desc['seed'] * 131 + k * 17 + j) if seeds is None else seeds[0]
            res = one_run(desc, k, sseed)
            rp = dict(desc, only_k=k, only_sseed=sseed)
            ctx.evals()
            ctx.count('mon.attempts')
            life1 = judge(desc, k, res, ctx, rp)
            s = res['sched']
            if res['overlap']:
                ctx.count('mon.runs_with_concurrent_dispatch_and_disconnect')
            if res['fired']:
                ctx.count('mon.trigger_fired')
                ctx.nontrivial((desc['trigger'], desc['reporter'], desc['api'], k, tuple(life1), s.signature()))
                if desc['trigger'].startswith('fault'):
                    if 'link_established' not in life1:
                        ctx.count('mon.fault_before_first_packet')
                    elif 'connected' not in life1:
                        ctx.count('mon.fault_mid_setup')
                    else:
                        ctx.count('mon.fault_after_connected')
                if desc['trigger'] == 'close_cb':
                    ctx.count('mon.close_in_callback')
                if desc['trigger'] in ('close_portcb', 'close_paramcb'):
                    ctx.count('mon.close_in_a_port_or_parameter_callback_of_the_application')
                if desc['trigger'] == 'fault_connect':
                    ctx.count('mon.fault_during_driver_connect')
                    if res.get('zombie_link'):
                        ctx.count('obs.dead_driver_left_in_cf_link_after_error_during_connect')
            if desc.get('dup'):
                ctx.count('mon.attempts_with_duplicated_answers')
            ctx.count('mon.change_notifications_during_the_value_download', res.get('notified', 0))
            ctx.count('mon.stale_item_answers_right_in_front_of_the_table_info_answer', res.get('stale_item_before_info', 0))
            ctx.count('mon.sync_api' if desc['api'] == 'sync' else 'mon.async_api')
            if desc['line_p'] > 0:
                ctx.count('mon.line_preempted_runs')
                if desc.get('at_connected') and res['fired']:
                    ctx.count('mon.runs_with_the_link_ending_around_the_packet_that_completes_the_set_up')
                ctx.count('mon.line_points', s.line_points)
            ctx.count('mon.sched_steps', s.steps)
            ctx.count('mon.packets_handed_out_after_the_link_was_closed', getattr(res['spec'], 'rx_after_close', 0))
            ctx.count('mon.thread_switches', s.switches)
            if first and res['fired']:
                first = False
                ctx.sample({'desc': {x: desc[x] for x in ('api', 'trigger', 'reporter', 'sched', 'line_p')}, 'k': k,
                            'attempt1_trace': life1, 'all_events': [e[:4] for e in res['ob'].events][:30],
                            'state_after_trigger': res.get('state_after'), 'steps': s.steps,
                            'interleaving_signature': s.signature()})
