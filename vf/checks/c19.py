"""C19 - swarm actions run once per Crazyflie with the right arguments and error report.

The real Swarm runs its per-member threads under detsched.  Members come from an instrumented
factory (recording open/close/action calls with virtual time stamps, scripted failures and yields)
and, for a subset, are real SyncCrazyflie objects over sim:// links.
"""
import itertools
import random

from vf import core, harness

PROPERTY = 'C19'
LEVEL = 'exploration'
RULE = ('configuration = swarm size 1..6, argument dictionary (random tuples per URI or none), subset of members whose '
        'action raises (ALL subsets for n <= 5), subset whose open_link fails (ALL subsets for n <= 4), actions that sleep / '
        'yield at random points; each configuration under 16 (quick) / 64 (thorough) schedules over random, PCT and '
        'run-to-block policies. distinct_nontrivial = distinct (configuration, interleaving signature).')
ASSUMPTIONS = ['members are duck-typed SyncCrazyflie stand-ins (open_link / close_link / cf); a subset of cases uses real '
               'SyncCrazyflie objects over the sim:// driver']
REQUIRED = ['mon.overlapping_swarm_steps_nested', 'mon.overlapping_swarm_steps_callers', 'mon.overlapping_steps_where_only_one_has_a_failing_action', 'mon.real_swarm_opened_a_third_time_after_two_failures', 'mon.real_members_closed_while_their_parameter_callbacks_keep_the_incoming_thread_busy', 'mon.parallel_safe', 'mon.parallel', 'mon.sequential', 'mon.open_failures', 'mon.double_open', 'mon.real_members',
            'mon.actions_invoked', 'mon.argument_dictionaries_in_another_order',
            'mon.real_swarm_reopened_with_a_link_dropping_in_the_handshake', 'mon.actions_raising_errors_without_a_text_argument']
DESC_TIMEOUT = 900


def cases(tier, seed):
    S = 32 if tier == 'quick' else 64
    out = []
    for n in range(1, 7):
        out.append({'n': n, 'part': 'actions', 'S': S, 'seed': seed * 131 + n})
        if n <= 4:
            out.append({'n': n, 'part': 'open', 'S': S, 'seed': seed * 131 + n})
        if n >= 2:
            out.append({'n': n, 'part': 'overlap', 'S': S * 2, 'seed': seed * 131 + n})
    for i in range(24 if tier == 'quick' else 96):
        out.append({'n': 3, 'part': 'real', 'S': 1, 'seed': seed * 1009 + i})
    for i in range(288 if tier == 'quick' else 1200):
        out.append({'n': 3, 'part': 'real', 'S': 1, 'seed': seed * 2003 + i, 'busy': True})
    return out


class Fail(Exception):
    pass


class _Fac:
    """Swarm calls factory.construct(uri)."""
    def __init__(self, f):
        self.construct = f


class Member:
    def __init__(self, uri, log, fail_open):
        self.uri = uri
        self.log = log
        self.fail_open = fail_open
        self.cf = type('cf', (), {'link_uri': uri})()
        self.opened = False

    def _t(self):
        from vf import detsched as ds
        return ds.CUR.now if ds.CUR else 0.0

    def open_link(self):
        from vf import detsched as ds
        self.log.append(('open_call', self.uri, self._t()))
        ds.v_sleep(0.01 * (1 + hash(self.uri) % 3))
        if self.fail_open:
            self.log.append(('open_fail', self.uri, self._t()))
            raise Fail('cannot open ' + self.uri)
        self.opened = True
        self.log.append(('open_ok', self.uri, self._t()))

    def close_link(self):
        self.log.append(('close', self.uri, self._t()))
        self.opened = False


class Factory:
    def __init__(self, log, failing):
        self.log = log
        self.failing = failing
        self.members = {}

    def construct(self, uri):
        m = Member(uri, self.log, uri in self.failing)
        self.members[uri] = m
        return m


def run_actions(desc, ctx):
    harness.init()
    from vf import detsched as ds
    from cflib.crazyflie.swarm import Swarm
    n = desc['n']
    rnd = random.Random(desc['seed'])
    uris = ['sim://m%d' % i for i in range(n)]
    rnd.shuffle(uris)
    subsets = list(itertools.chain.from_iterable(itertools.combinations(range(n), k) for k in range(n + 1)))
    if n > 5:
        subsets = rnd.sample(subsets, 20)
    first = None
    for sub in subsets:
        failing = {uris[i] for i in sub}
        use_args = rnd.random() < 0.7
        args = {u: [rnd.randrange(100), 'a-%s' % u, (u, rnd.random())][:rnd.randint(0, 3)] for u in uris} if use_args else None
        if args is not None and rnd.random() < 0.6:
            # the dictionary need not be written in the order of the URI list, and may hold entries for other Crazyflies
            keys = list(args)
            rnd.shuffle(keys)
            if rnd.random() < 0.4:
                keys.insert(rnd.randrange(len(keys) + 1), 'sim://not-a-member')
            args = {k: args.get(k, ['x']) for k in keys}
            if keys != uris:
                ctx.count('mon.argument_dictionaries_in_another_order')
        if args is not None and rnd.random() < 0.5:
            # the entries are sequences of arguments: tuples as often as lists
            args = {k: (tuple(v) if rnd.random() < 0.7 else v) for k, v in args.items()}
            ctx.count('mon.argument_dictionaries_with_tuple_entries')
        for si in range(desc['S'] // 4 if n >= 4 else desc['S']):
            log = []
            fac = Factory(log, set())
            calls = []
            ob = {}
            pol = ('random', 'pct', 'rtb', 'random')[si % 4]
            arnd = random.Random(desc['seed'] * 7919 + si)
            delays = {u: [arnd.choice((0.0, 0.0, 0.01, 0.05)) for _ in range(3)] for u in uris}

            # what an action raises is not always an Exception('text'): errno-style, key-style, payload-less and object-carrying errors
            flavour = arnd.randrange(6)
            if flavour:
                ctx.count('mon.actions_raising_errors_without_a_text_argument', len(failing))

            def mk_exc(uri, flavour=flavour):
                e = (Fail(uri), OSError(5, uri), KeyError(7), Fail(), Fail(object(), uri), TimeoutError())[flavour]
                e.member = uri
                return e

            def action(scf, *a):
                s = ds.CUR
                calls.append(('begin', scf.uri, a, s.now, s.steps))
                for d in delays[scf.uri]:
                    ds.v_sleep(d)
                calls.append(('end', scf.uri, a, s.now, s.steps))
                if scf.uri in failing:
                    raise mk_exc(scf.uri)

            def fn(s):
                sw = Swarm(uris, factory=fac)
                for mode in ('parallel_safe', 'parallel', 'sequential'):
                    calls.clear()
                    exc = None
                    try:
                        getattr(sw, mode)(action, args_dict=args) if args is not None else getattr(sw, mode)(action)
                    except Exception as e:  # noqa
                        exc = e
                    ob[mode] = (list(calls), exc, s.steps)
            _, abort, sch = harness.sched_case(fn, seed=desc['seed'] * 31 + si, policy=pol, line_p=harness.line_p_for(desc['seed'] * 31 + si, 4, 0.2), horizon=600.0)
            ctx.count('mon.statement_level_preemption_points', sch.line_points)
            ctx.evals()
            info = {'uris': uris, 'failing': sorted(failing), 'args': core.jsonable(args), 'schedule': pol}
            rp = dict(desc)
            if abort is not None or sch.deaths:
                ctx.violate('swarm:hang-or-thread-death', dict(info, abort=str(abort), deaths=[d[1] for d in sch.deaths][:2]), replay=rp)
                continue
            for mode in ('parallel_safe', 'parallel', 'sequential'):
                cl, exc, ret_step = ob[mode]
                ctx.count('mon.' + mode)
                begins = [c for c in cl if c[0] == 'begin']
                ends = [c for c in cl if c[0] == 'end']
                ctx.count('mon.actions_invoked', len(begins))
                want_args = {u: tuple(args[u]) if args else () for u in uris}
                # sequential stops at the first failing member (the exception propagates): members after it are not run
                if mode == 'sequential':
                    expected = []
                    for u in uris:
                        expected.append(u)
                        if u in failing:
                            break
                    got_order = [c[1] for c in begins]
                    if got_order != expected:
                        ctx.violate('swarm:sequential-not-once-per-member-in-uri-order', dict(info, got=got_order, want=expected), replay=rp)
                    # intervals disjoint: begin/end strictly alternate
                    seq = [c[0] for c in cl]
                    if seq != ['begin', 'end'] * len(begins):
                        ctx.violate('swarm:sequential-actions-overlap', dict(info, events=seq), replay=rp)
                    if (exc is not None) != bool(failing & set(expected)):
                        ctx.violate('swarm:sequential-error-report-wrong', dict(info, raised=repr(exc)), replay=rp)
                else:
                    if sorted(c[1] for c in begins) != sorted(uris):
                        ctx.violate('swarm:%s-action-not-invoked-exactly-once-per-member' % mode,
                                    dict(info, invoked=sorted(c[1] for c in begins)), replay=rp)
                    if any(c[4] > ret_step for c in ends) or len(ends) != len(begins):
                        ctx.violate('swarm:%s-returned-before-every-action-finished' % mode, dict(info, ends=len(ends)), replay=rp)
                    if mode == 'parallel':
                        if exc is not None:
                            ctx.violate('swarm:parallel-raised', dict(info, raised=repr(exc)), replay=rp)
                    else:
                        if (exc is not None) != bool(failing):
                            ctx.violate('swarm:parallel_safe-raises-iff-an-action-raised-violated', dict(info, raised=repr(exc)), replay=rp)
                        elif exc is not None:
                            cause = exc.__cause__
                            if getattr(cause, 'member', None) not in failing:
                                ctx.violate('swarm:parallel_safe-cause-is-not-one-of-the-raised-errors', dict(info, cause=repr(cause)), replay=rp)
                for c in begins:
                    if tuple(c[2]) != want_args[c[1]]:
                        ctx.violate('swarm:%s-action-got-wrong-arguments' % mode, dict(info, member=c[1], got=core.jsonable(c[2]),
                                                                                   want=core.jsonable(want_args[c[1]])), replay=rp)
            ctx.nontrivial((n, tuple(sorted(failing)), use_args, sch.signature()))
            first = first or {'uris': uris, 'failing': sorted(failing), 'args': core.jsonable(args), 'switches': sch.switches}
    ctx.sample(first)


def run_overlap(desc, ctx):
    """Several swarm-wide steps of one Swarm in flight at the same time: an action that itself performs a swarm-wide step
    (nested), and two application threads that each run a step. Every call is judged on its own actions: it raises iff
    one of ITS actions raised, chaining one of THOSE errors, and returns only after all of ITS actions finished."""
    harness.init()
    from vf import detsched as ds
    from cflib.crazyflie.swarm import Swarm
    import threading
    n = desc['n']
    uris = ['sim://m%d' % i for i in range(n)]
    for si in range(desc['S']):
        arnd = random.Random(desc['seed'] * 6007 + si)
        shape = ('nested', 'callers')[si % 2]
        # the failing subsets of the two steps ('A' = outer / first caller, 'B' = inner / second caller)
        fail = {k: {u for u in uris if arnd.random() < (0.4 if k == 'A' else 0.25)} for k in 'AB'}
        delays = {(k, u): arnd.choice((0.0, 0.01, 0.02, 0.05, 0.1)) for k in 'AB' for u in uris}
        nester = arnd.choice(uris)
        if shape == 'nested':
            fail['A'].discard(nester) if arnd.random() < 0.7 else None
        start_b = arnd.choice((0.0, 0.005, 0.03, 0.06))
        log = []
        fac = Factory(log, set())
        ob = {}
        ends = {'A': [], 'B': []}

        def mk(k, sw):
            def action(scf, *a):
                ds.v_sleep(delays[(k, scf.uri)])
                if k == 'A' and shape == 'nested' and scf.uri == nester:
                    call('B', sw)
                    ds.v_sleep(arnd.choice((0.0, 0.02)))
                ends[k].append((scf.uri, ds.CUR.steps))
                if scf.uri in fail[k]:
                    e = Fail(k, scf.uri)
                    e.member = (k, scf.uri)
                    raise e
            return action

        def call(k, sw):
            exc = None
            try:
                sw.parallel_safe(mk(k, sw))
            except Exception as e:  # noqa
                exc = e
            ob[k] = (exc, ds.CUR.steps)

        def fn(s):
            sw = Swarm(uris, factory=fac)
            if shape == 'nested':
                call('A', sw)
            else:
                tb = threading.Thread(target=lambda: (ds.v_sleep(start_b), call('B', sw)))
                tb.start()
                call('A', sw)
                tb.join()
        pol = ('random', 'pct', 'rtb')[si % 3]
        _, abort, sch = harness.sched_case(fn, seed=desc['seed'] * 37 + si, policy=pol, line_p=harness.line_p_for(desc['seed'] * 37 + si, 4, 0.2), horizon=600.0)
        ctx.evals()
        info = {'uris': uris, 'shape': shape, 'failing': {k: sorted(v) for k, v in fail.items()}, 'nester': nester, 'schedule': pol}
        rp = dict(desc)
        if abort is not None or sch.deaths:
            ctx.violate('swarm:overlap:hang-or-thread-death', dict(info, abort=str(abort), deaths=[d[1] for d in sch.deaths][:2]), replay=rp)
            continue
        ctx.count('mon.overlapping_swarm_steps_%s' % shape)
        for k in 'AB':
            if k not in ob:
                ctx.violate('swarm:overlap:step-never-returned', dict(info, step=k), replay=rp)
                continue
            exc, ret_step = ob[k]
            raised = set(fail[k])
            if sorted(u for u, _ in ends[k]) != sorted(uris):
                ctx.violate('swarm:overlap:action-not-invoked-exactly-once-per-member', dict(info, step=k, ran=sorted(u for u, _ in ends[k])), replay=rp)
            if any(st > ret_step for _, st in ends[k]):
                ctx.violate('swarm:overlap:parallel_safe-returned-before-every-action-finished', dict(info, step=k), replay=rp)
            if (exc is not None) != bool(raised):
                ctx.violate('swarm:overlap:parallel_safe-raises-iff-one-of-its-own-actions-raised-violated',
                            dict(info, step=k, raised=repr(exc), cause=repr(getattr(exc, '__cause__', None))), replay=rp)
            elif exc is not None:
                m = getattr(exc.__cause__, 'member', None)
                if m is None or m[0] != k or m[1] not in raised:
                    ctx.violate('swarm:overlap:parallel_safe-cause-is-not-one-of-its-own-raised-errors', dict(info, step=k, cause=repr(exc.__cause__)), replay=rp)
            if raised and fail['AB'.replace(k, '')] == set():
                ctx.count('mon.overlapping_steps_where_only_one_has_a_failing_action')
        ctx.nontrivial(('overlap', n, shape, tuple(sorted(fail['A'])), tuple(sorted(fail['B'])), sch.signature()))


def _refused_reopen(sw, log, ob):
    """Second open_links() on an open swarm: must raise, touch no link, and stay refused."""
    n_log = len(log)
    try:
        sw.open_links()
        ob['double'] = None
    except Exception as e:  # noqa
        ob['double'] = repr(e)
    ob['still_open'] = sw._is_open
    try:
        sw.open_links()
        ob['third'] = None
    except Exception as e:  # noqa
        ob['third'] = repr(e)
    ob['touched_by_refused_open'] = [x[:2] for x in log[n_log:]]


def run_open(desc, ctx):
    harness.init()
    from cflib.crazyflie.swarm import Swarm
    n = desc['n']
    rnd = random.Random(desc['seed'] + 5)
    uris = ['sim://m%d' % i for i in range(n)]
    subsets = list(itertools.chain.from_iterable(itertools.combinations(range(n), k) for k in range(n + 1)))
    first = None
    for sub in subsets:
        failing = {uris[i] for i in sub}
        for si in range(max(2, desc['S'] // 4)):
            log = []
            fac = Factory(log, failing)
            ob = {}
            form = ('explicit', 'with')[si % 2]

            def fn(s):
                sw = Swarm(uris, factory=fac)
                exc = None
                try:
                    if form == 'with':
                        with sw:
                            ob['inside'] = True
                            ob['is_open_inside'] = sw._is_open
                            _refused_reopen(sw, log, ob)
                    else:
                        sw.open_links()
                        ob['inside'] = True
                        _refused_reopen(sw, log, ob)
                        sw.close_links()
                except Exception as e:  # noqa
                    exc = e
                ob['exc'] = exc
                ob['is_open'] = sw._is_open
            _, abort, sch = harness.sched_case(fn, seed=desc['seed'] * 53 + si, policy=('random', 'pct', 'rtb')[si % 3], line_p=harness.line_p_for(desc['seed'] * 53 + si, 4, 0.2), horizon=600.0)
            ctx.count('mon.statement_level_preemption_points', sch.line_points)
            ctx.evals()
            info = {'uris': uris, 'open_fails_for': sorted(failing), 'form': form}
            rp = dict(desc)
            if abort is not None or sch.deaths:
                ctx.violate('swarm:open:hang-or-thread-death', dict(info, abort=str(abort)), replay=rp)
                continue
            opens = [e for e in log if e[0] == 'open_call']
            closes = [e for e in log if e[0] == 'close']
            if sorted(e[1] for e in opens if True)[:n] != sorted(uris) and not failing:
                ctx.violate('swarm:open:not-every-member-opened', dict(info, opened=[e[1] for e in opens]), replay=rp)
            if failing:
                ctx.count('mon.open_failures')
                if ob['exc'] is None or ob.get('inside'):
                    ctx.violate('swarm:open:failure-not-raised', dict(info, raised=repr(ob['exc'])), replay=rp)
                last_open = max(e[2] for e in log if e[0] in ('open_ok', 'open_fail'))
                closed_after = {e[1] for e in closes if e[2] >= last_open}
                if closed_after != set(uris):
                    ctx.violate('swarm:open:not-every-link-closed-after-failed-open', dict(info, closed=sorted(closed_after)), replay=rp)
                if ob['is_open']:
                    ctx.violate('swarm:open:marked-open-after-failed-open', info, replay=rp)
            else:
                ctx.count('mon.double_open')
                if ob['exc'] is not None:
                    ctx.violate('swarm:open:raised-although-every-link-opened', dict(info, raised=repr(ob['exc'])), replay=rp)
                if ob.get('double') is None:
                    ctx.violate('swarm:open:second-open_links-did-not-raise', info, replay=rp)
                elif ob.get('touched_by_refused_open') or ob.get('third', 1) is None or ob.get('still_open') is False:
                    ctx.violate('swarm:open:refused-second-open-changed-the-open-swarm',
                                dict(info, link_calls=ob.get('touched_by_refused_open'), third_open=ob.get('third'),
                                     still_open=ob.get('still_open')), replay=rp)
                if {e[1] for e in closes} != set(uris) or ob['is_open']:
                    ctx.violate('swarm:open:links-not-closed-at-exit', dict(info, closed=sorted({e[1] for e in closes})), replay=rp)
                opened_twice = [u for u in uris if sum(1 for e in opens if e[1] == u) != 1]
                if opened_twice:
                    ctx.violate('swarm:open:member-opened-more-than-once', dict(info, members=opened_twice), replay=rp)
            ctx.nontrivial((n, tuple(sorted(failing)), form, sch.signature()))
            first = first or dict(info, log=[(e[0], e[1]) for e in log][:10])
    ctx.sample(first)
    del rnd


def run_real(desc, ctx):
    """Real SyncCrazyflie members over sim:// links, one of which may be unreachable."""
    harness.init()
    from vf import gen, simcf, simlink
    from cflib.crazyflie.swarm import Swarm
    rnd = random.Random(desc['seed'])
    uris = ['sim://swarm%d' % i for i in range(3)]
    bad = rnd.choice((None, None, uris[rnd.randrange(3)]))
    busy = bool(desc.get('busy'))
    if busy:
        # the clean-up after a failed opening closes members that are still fetching their parameter values, while the
        # application's parameter callbacks keep the thread that handles their incoming packets busy
        bad = uris[rnd.randrange(3)]
    devs = {}
    # how the bad member fails: there is no such Crazyflie, or its link dies while the driver is still connecting
    # (reported from the connecting thread, from the driver's thread before connect() returns, or racing with its
    # return), or with the very first packet
    bad_mode = rnd.choice(('missing', 'sync', 'thread', 'race', 'first_tx')) if bad is not None else None
    for u in uris:
        if u == bad and bad_mode == 'missing':
            simlink.SIMS.pop(u, None)
            continue
        devs[u] = simcf.SimCF(gen.profile(desc['seed'] + hash(u) % 97, 2, rnd.randint(4, 14) if busy else 3))
        simlink.SIMS[u] = simlink.LinkSpec(devs[u])
        if busy and rnd.random() < 0.7:
            simlink.SIMS[u].latency = 0.0      # answers are in the driver's queue the moment the request has gone out
        if u == bad:
            if bad_mode == 'first_tx':
                simlink.SIMS[u].fail_after_tx = 1
                simlink.SIMS[u].fail_reporter = rnd.choice(('driver', 'sender'))
            else:
                simlink.SIMS[u].fail_in_connect = bad_mode
    ob = {'seen': [], 'exc': None}
    # the link of one healthy member fails at the very moment it is being closed (on the stop setpoint close_link sends)
    dying = None
    if rnd.random() < 0.5:
        dying = rnd.choice([u for u in uris if u != bad])
        simlink.SIMS[dying].fail_on_tx = lambda h, d: (h >> 4) & 0xF == 3
        simlink.SIMS[dying].fail_reporter = rnd.choice(('sender', 'sender', 'driver'))

    def fn(s):
        for d in devs.values():
            d.now = lambda: s.now
        if busy:
            import time as _time
            from cflib.crazyflie import Crazyflie
            from cflib.crazyflie.syncCrazyflie import SyncCrazyflie
            brnd = random.Random(desc['seed'] ^ 0xB5)

            def factory(uri):
                cf = Crazyflie()

                def slow_listener(name, value):
                    ob['busy_callbacks'] = ob.get('busy_callbacks', 0) + 1
                    for _ in range(brnd.randint(0, 12)):
                        _time.sleep(0)          # (work: the thread stays runnable, no time passes)
                cf.param.all_update_callback.add_callback(slow_listener)
                return SyncCrazyflie(uri, cf=cf)
            sw = Swarm(uris, factory=_Fac(factory))
        else:
            sw = Swarm(uris)
        try:
            with sw:
                def act(scf, tag):
                    scf.wait_for_params()
                    ob['seen'].append((scf.cf.link_uri, tag, scf.is_link_open()))
                sw.parallel_safe(act, args_dict={u: [u[-1]] for u in uris})
        except Exception as e:  # noqa
            ob['exc'] = e
        s.sleep(1.0)
        ob['open_after'] = [u for u, scf in sw._cfs.items() if scf.is_link_open()]
        if reopen and ob['exc'] is None:
            # the same swarm is opened again; this time the link of one member drops during the handshake
            victim = uris[rnd.randrange(3)]
            spec = simlink.SIMS[victim]
            if rnd.random() < 0.5:
                spec.fail_after_rx = rnd.randint(1, 5)
            else:
                spec.fail_after_tx = rnd.randint(2, 5)
            spec.fail_reporter = rnd.choice(('driver', 'sender'))
            ob['victim'] = victim
            s.horizon = s.now + 300.0
            try:
                sw.open_links()
                ob['reopen_exc'] = None
            except Exception as e:  # noqa
                ob['reopen_exc'] = repr(e)[:200]
            s.sleep(1.0)
            ob['open_after_reopen'] = [u for u, scf in sw._cfs.items() if scf.is_link_open()]
            ob['fault_fired'] = spec.faults_fired
            if ob['reopen_exc'] is None:
                sw.close_links()
            elif desc['seed'] % 4 == 0:
                # ... and the application tries once more; the link of the same member drops again, a little later in the set-up
                fired = spec.faults_fired
                spec.fail_after_tx = spec.fail_after_rx = None
                spec.sess_tx = spec.sess_rx = 0
                if rnd.random() < 0.5:
                    spec.fail_after_rx = rnd.randint(2, 9)
                else:
                    spec.fail_after_tx = rnd.randint(3, 9)
                s.horizon = s.now + 300.0
                try:
                    sw.open_links()
                    ob['third_exc'] = None
                except Exception as e:  # noqa
                    ob['third_exc'] = repr(e)[:200]
                s.sleep(1.0)
                ob['third'] = {'fault_fired': spec.faults_fired > fired, 'open_after': [u for u, scf in sw._cfs.items() if scf.is_link_open()]}
                if ob['third_exc'] is None:
                    sw.close_links()
    reopen = bad is None and desc['seed'] % 2 == 0
    if busy:
        _, abort, sch = harness.sched_case(fn, seed=desc['seed'], policy='random', horizon=2000.0, line_p=0.01,
                                           line_focus=('close', 'close_link', '_disconnected', '_disconnected_cb', 'close_links',
                                                       '_new_packet_cb', '_close', 'run'), line_focus_p=0.4)
        ctx.count('mon.real_members_closed_while_their_parameter_callbacks_keep_the_incoming_thread_busy',
                  1 if ob.get('busy_callbacks') else 0)
        ctx.count('mon.preemption_points_inside_the_closing_code', sch.focus_points)
    else:
        _, abort, sch = harness.sched_case(fn, seed=desc['seed'], policy='random', horizon=2000.0)
    ctx.evals()
    ctx.count('mon.real_members')
    info = {'uris': uris, 'unreachable': bad, 'how_it_fails': bad_mode}
    if bad_mode not in (None, 'missing'):
        ctx.count('mon.real_swarm_member_whose_link_dies_while_connecting')
    if dying is not None:
        info['link_failing_while_being_closed'] = dying
        ctx.count('mon.real_swarm_member_whose_link_fails_while_being_closed')
    if reopen and abort is None and ob.get('fault_fired'):
        ctx.count('mon.real_swarm_reopened_with_a_link_dropping_in_the_handshake')
        if ob.get('reopen_exc') is None or ob.get('open_after_reopen'):
            ctx.violate('swarm:real:reopen-with-failing-member-not-raised-or-links-left-open',
                        dict(info, victim=ob.get('victim'), raised=ob.get('reopen_exc'), open=ob.get('open_after_reopen')))
    if abort is None and ob.get('third') and ob['third']['fault_fired']:
        ctx.count('mon.real_swarm_opened_a_third_time_after_two_failures')
        if ob.get('third_exc') is None or ob['third']['open_after']:
            ctx.violate('swarm:real:second-failing-open-not-raised-or-links-left-open',
                        dict(info, raised=ob.get('third_exc'), open=ob['third']['open_after']))
    if abort is not None or sch.deaths:
        ctx.violate('swarm:real:hang-or-thread-death', dict(info, abort=str(abort), threads=getattr(abort, 'table', None),
                                                          deaths=[d[1] for d in sch.deaths][:2]))
        return
    if bad is None:
        if ob['exc'] is not None or sorted(ob['seen']) != sorted((u, u[-1], True) for u in uris):
            ctx.violate('swarm:real:action-not-run-once-per-connected-member', dict(info, seen=ob['seen'], raised=repr(ob['exc'])))
    else:
        if ob['exc'] is None or ob['seen']:
            ctx.violate('swarm:real:failed-open-not-raised', dict(info, seen=ob['seen']))
    if ob['open_after']:
        ctx.violate('swarm:real:links-left-open', dict(info, open=ob['open_after']))
    ctx.nontrivial(('real', desc['seed'], bad))
    ctx.sample(dict(info, actions=ob['seen'], raised=repr(ob['exc'])[:80]))


def run(desc, ctx):
    core.setup_path()
    globals()['run_' + desc['part']](desc, ctx)
