"""C15 - lighthouse angle / vector / pose conversions are mutually consistent.

Return values of the real conversion functions are judged by round trips, by an independent
plane-equation reference for the V2 sweeps, by the rigid-motion laws, and by comparing the geometry
solver's vectorised projection with the projection defined by the Pose / LighthouseBsVector types.
"""
import math
import random

from vf import core, lhgen

PROPERTY = 'C15'
LEVEL = 'exploration'
RULE = ('directions: boundary grid (every 5 deg) and seeded-random points with horizontal in +-80 deg and vertical in '
        '+-55 deg; poses: random, identity, half turns about every axis, 1e-9 rad rotations, translations up to 10 m; '
        'pose triples for associativity; base-station / Crazyflie pose pairs incl. exactly-zero rotation vectors fed to '
        'both projection paths. distinct_nontrivial = distinct inputs (quantised to 1e-12) that reached a monitor.')
ASSUMPTIONS = ['float32 accuracy bound of the statement taken as 1e-6 rad (measured worst values are in the evidence)',
               'V2 reference: light plane through the rotation axis direction tilted by 30 deg, n(a).d = 0']
REQUIRED = ['mon.solver_projections_on_recycled_memory_holding_junk', 'mon.poses_whose_source_arrays_were_changed_afterwards', 'mon.solver_poses_with_exactly_zero_translation', 'mon.poses_from_quaternions_not_of_unit_length', 'mon.vector_answers_modified_by_the_caller', 'mon.list_helpers_asked_again_after_the_list_changed', 'mon.v1_v2_v1', 'mon.v1_cart_v1', 'mon.v1_proj_v1', 'mon.v2_plane_reference', 'mon.pose_inverse',
            'mon.pose_associativity', 'mon.pose_views', 'mon.solver_projection', 'mon.solver_zero_rotation', 'mon.ippe_axes', 'mon.pose_laws_after_history',
            'mon.solver_pairs_with_crazyflie_behind_the_base_station', 'mon.solver_non_canonical_rotation_vectors']

H_LIM, V_LIM = math.radians(80), math.radians(55)
T = math.pi / 6


def cases(tier, seed):
    n = 32 if tier == 'quick' else 160
    return [{'seed': seed * 100003 + i, 'part': 'dirs', 'n': 12000} for i in range(n)] + \
        [{'seed': seed * 100003 + i, 'part': 'poses', 'n': 1500} for i in range(n)] + \
        [{'seed': seed * 100003 + i, 'part': 'solver', 'n': 60} for i in range(n)] + [{'seed': 0, 'part': 'grid'}]


def _adiff(a, b):
    d = (a - b + math.pi) % (2 * math.pi) - math.pi
    return abs(d)


def check_dir(ctx, h, v, worst):
    from cflib.localization.lighthouse_bs_vector import LighthouseBsVector
    import numpy as np
    vec = LighthouseBsVector(h, v)
    ctx.evals()
    key = (round(h, 12), round(v, 12))
    ctx.nontrivial(('dir', key))
    # V1 -> V2 -> V1
    a1, a2 = vec.lh_v2_angle_1, vec.lh_v2_angle_2
    back = LighthouseBsVector.from_lh2(a1, a2)
    e = max(_adiff(back.lh_v1_horiz_angle, h), _adiff(back.lh_v1_vert_angle, v))
    worst['v2'] = max(worst['v2'], e)
    ctx.count('mon.v1_v2_v1')
    if not e <= 1e-6:
        ctx.violate('lhvec:v1-v2-v1-round-trip', {'h': h, 'v': v, 'a1': a1, 'a2': a2, 'err': e})
    # V2 angles against the plane equation
    d = np.array([1.0, math.tan(h), math.tan(v)])
    d /= np.linalg.norm(d)
    for a, sgn in ((a1, -1.0), (a2, 1.0)):
        # plane with tilt sgn*T rotated by a about z: cos T (y cos a - x sin a) = sgn * z sin T
        res = math.cos(T) * (d[1] * math.cos(a) - d[0] * math.sin(a)) + sgn * d[2] * math.sin(T)
        ctx.count('mon.v2_plane_reference')
        worst['plane'] = max(worst['plane'], abs(res))
        if not abs(res) <= 1e-9:
            ctx.violate('lhvec:v2-angle-not-on-the-tilted-light-plane', {'h': h, 'v': v, 'angle': a, 'tilt_sign': sgn,
                                                                       'residual': res})
    # V1 -> cart -> V1
    c = vec.cart
    n = float(np.linalg.norm(np.asarray(c, dtype=float)))
    back = LighthouseBsVector.from_cart(c)
    e = max(_adiff(back.lh_v1_horiz_angle, h), _adiff(back.lh_v1_vert_angle, v))
    worst['cart'] = max(worst['cart'], e)
    worst['norm'] = max(worst['norm'], abs(n - 1))
    ctx.count('mon.v1_cart_v1')
    if not e <= 1e-6 or not abs(n - 1) <= 5e-7:
        ctx.violate('lhvec:v1-cart-v1-round-trip-or-norm', {'h': h, 'v': v, 'err': e, 'norm': n})
    ref = d.astype(np.float32)
    if not np.allclose(np.asarray(c, dtype=float), ref, atol=3e-7):
        ctx.violate('lhvec:cartesian-direction-wrong', {'h': h, 'v': v, 'got': [float(x) for x in c], 'want': d.tolist()})
    # V1 -> projection -> V1
    p = vec.projection
    back = LighthouseBsVector.from_projection(p)
    e = max(_adiff(back.lh_v1_horiz_angle, h), _adiff(back.lh_v1_vert_angle, v))
    worst['proj'] = max(worst['proj'], e)
    ctx.count('mon.v1_proj_v1')
    if not e <= 1e-6:
        ctx.violate('lhvec:v1-projection-v1-round-trip', {'h': h, 'v': v, 'err': e})
    if abs(float(p[0]) - math.tan(h)) > 1e-6 * max(1, abs(math.tan(h))) or abs(float(p[1]) - math.tan(v)) > 1e-6 * max(1, abs(math.tan(v))):
        ctx.violate('lhvec:projection-wrong', {'h': h, 'v': v, 'got': [float(p[0]), float(p[1])]})


def run_dirs(desc, ctx):
    rnd = random.Random(desc['seed'])
    worst = {'v2': 0.0, 'cart': 0.0, 'proj': 0.0, 'norm': 0.0, 'plane': 0.0}
    for _ in range(desc['n']):
        r = rnd.random()
        if r < 0.1:
            h, v = rnd.choice((-H_LIM, H_LIM, 0.0)), rnd.uniform(-V_LIM, V_LIM)
        elif r < 0.2:
            h, v = rnd.uniform(-H_LIM, H_LIM), rnd.choice((-V_LIM, V_LIM, 0.0))
        elif r < 0.25:
            h, v = rnd.uniform(-1e-9, 1e-9), rnd.uniform(-1e-9, 1e-9)
        else:
            h, v = rnd.uniform(-H_LIM, H_LIM), rnd.uniform(-V_LIM, V_LIM)
        check_dir(ctx, h, v, worst)
    ctx.sample({'directions': desc['n'], 'worst_errors': worst})


def run_grid(desc, ctx):
    worst = {'v2': 0.0, 'cart': 0.0, 'proj': 0.0, 'norm': 0.0, 'plane': 0.0}
    for hd in range(-80, 81, 5):
        for vd in range(-55, 56, 5):
            check_dir(ctx, math.radians(hd), math.radians(vd), worst)
    # list helpers
    from cflib.localization.lighthouse_bs_vector import LighthouseBsVector, LighthouseBsVectors
    vs = LighthouseBsVectors([LighthouseBsVector(0.1 * i, -0.05 * i) for i in range(4)])
    al = vs.angle_list()
    pl = vs.projection_pair_list()
    ok = all(abs(al[2 * i] - 0.1 * i) < 1e-12 and abs(al[2 * i + 1] + 0.05 * i) < 1e-12 for i in range(4)) and \
        all(abs(pl[i][0] - math.tan(0.1 * i)) < 1e-6 and abs(pl[i][1] - math.tan(-0.05 * i)) < 1e-6 for i in range(4))
    if not ok:
        ctx.violate('lhvec:list-helpers-order-or-values', {'angle_list': al.tolist(), 'projection_pair_list': pl.tolist()})
    # lists with history: the helpers are asked again after the list was changed in place (element replaced, order
    # reversed, sorted, the array of the earlier answer modified by the caller) - row i is always element i's value
    import random as _random
    lrnd = _random.Random(desc.get('seed', 0))
    for _ in range(60):
        n = lrnd.randint(1, 6)
        vs = LighthouseBsVectors([LighthouseBsVector(lrnd.uniform(-1.2, 1.2), lrnd.uniform(-0.9, 0.9)) for _ in range(n)])
        first_p, first_a = vs.projection_pair_list(), vs.angle_list()
        op = lrnd.choice(('replace', 'reverse', 'sort', 'scribble', 'replace'))
        if op == 'replace':
            vs[lrnd.randrange(n)] = LighthouseBsVector(lrnd.uniform(-1.2, 1.2), lrnd.uniform(-0.9, 0.9))
        elif op == 'reverse':
            vs.reverse()
        elif op == 'sort':
            vs.sort(key=lambda v: v.lh_v1_vert_angle)
        else:
            first_p *= -1.0
            first_a += 1.0
        ctx.evals()
        ctx.count('mon.list_helpers_asked_again_after_the_list_changed')
        p2, a2 = vs.projection_pair_list(), vs.angle_list()
        okl = len(p2) == n and len(a2) == 2 * n and \
            all(abs(p2[i][0] - vs[i].projection[0]) < 1e-12 and abs(p2[i][1] - vs[i].projection[1]) < 1e-12 for i in range(n)) and \
            all(abs(a2[2 * i] - vs[i].lh_v1_horiz_angle) < 1e-12 and abs(a2[2 * i + 1] - vs[i].lh_v1_vert_angle) < 1e-12 for i in range(n))
        # what a vector hands out belongs to the caller: changing it in place (sign flip for the OpenCV convention, scaling
        # to pixels) leaves the vector's own conversions as they were
        v0 = vs[0]
        ref_p, ref_c = [float(x) for x in v0.projection], [float(x) for x in v0.cart]
        q, c = v0.projection, v0.cart
        try:
            q *= -1.0
            q += 320.0
            c *= 0.0
        except Exception:  # noqa (an immutable answer is fine too)
            pass
        ctx.count('mon.vector_answers_modified_by_the_caller')
        if [float(x) for x in v0.projection] != ref_p or [float(x) for x in v0.cart] != ref_c:
            ctx.violate('lhvec:conversion-changed-after-the-caller-modified-an-earlier-answer',
                        {'projection_before': ref_p, 'projection_now': [float(x) for x in v0.projection], 'cart_before': ref_c,
                         'cart_now': [float(x) for x in v0.cart]})
        if not okl:
            ctx.violate('lhvec:list-helpers-stale-after-the-list-changed', {'change': op, 'n': n, 'projection_pair_list': p2.tolist(),
                                                                            'per_element': [list(v.projection) for v in vs]})
    ctx.sample({'grid': '5 degree grid over +-80 x +-55', 'worst_errors': worst})


def _rand_pose(rnd, kind=None):
    import numpy as np
    kind = kind or rnd.choice(('random', 'random', 'random', 'identity', 'half', 'half_exact', 'tiny', 'quarter', 'random'))
    axis = [rnd.gauss(0, 1) for _ in range(3)]
    if kind == 'identity':
        R = np.eye(3)
    elif kind == 'half_exact':
        # exact half turns: the scalar part of the quaternion is exactly zero
        R = np.diag(rnd.choice(((1.0, -1.0, -1.0), (-1.0, 1.0, -1.0), (-1.0, -1.0, 1.0))))
        if rnd.random() < 0.3:
            a = np.array(rnd.choice(((1, 1, 0), (0, 1, 1), (1, 0, 1), (1, 1, 1))), dtype=float)
            a /= np.linalg.norm(a)
            R = 2.0 * np.outer(a, a) - np.eye(3)
    elif kind == 'quarter':
        # exact quarter turns (their products are exact half turns)
        R = np.array(rnd.choice((((0, -1, 0), (1, 0, 0), (0, 0, 1)), ((1, 0, 0), (0, 0, -1), (0, 1, 0)),
                                 ((0, 0, 1), (0, 1, 0), (-1, 0, 0)))), dtype=float)
    elif kind == 'half':
        R = lhgen.rot_axis(rnd.choice(((1, 0, 0), (0, 1, 0), (0, 0, 1), axis)), math.pi)
    elif kind == 'tiny':
        R = lhgen.rot_axis(axis, rnd.choice((1e-9, 1e-7, 1e-12)))
    else:
        R = lhgen.rot_axis(axis, rnd.uniform(-math.pi, math.pi))
    t = np.array([rnd.uniform(-10, 10) for _ in range(3)]) if kind != 'identity' or rnd.random() < 0.5 else np.zeros(3)
    return R, t


def run_poses(desc, ctx):
    import numpy as np
    from scipy.spatial.transform import Rotation
    from cflib.localization.lighthouse_types import Pose
    rnd = random.Random(desc['seed'])
    worst = 0.0
    for _ in range(desc['n']):
        (Ra, ta), (Rb, tb), (Rc, tc) = _rand_pose(rnd), _rand_pose(rnd), _rand_pose(rnd)
        A, B, C = Pose(Ra, ta), Pose(Rb, tb), Pose(Rc, tc)
        x = np.array([rnd.uniform(-5, 5) for _ in range(3)])
        ctx.evals()
        ctx.nontrivial(('pose', round(float(Ra[0, 1]), 12), round(float(ta[0]), 12), round(float(x[0]), 12)))
        # inverse undoes forward (points and poses)
        ctx.count('mon.pose_inverse')
        e1 = float(np.linalg.norm(A.inv_rotate_translate(A.rotate_translate(x)) - x))
        e2 = float(np.linalg.norm(A.rotate_translate(A.inv_rotate_translate(x)) - x))
        P = A.inv_rotate_translate_pose(A.rotate_translate_pose(B))
        e3 = float(np.linalg.norm(P.translation - tb) + np.linalg.norm(P.rot_matrix - Rb))
        # reference values
        e4 = float(np.linalg.norm(A.rotate_translate(x) - (Ra @ x + ta)))
        e5 = float(np.linalg.norm(A.inv_rotate_translate(x) - (Ra.T @ (x - ta))))
        worst = max(worst, e1, e2, e3, e4, e5)
        if max(e1, e2, e3, e4, e5) > 1e-9:
            ctx.violate('pose:inverse-does-not-undo-forward', {'errors': [e1, e2, e3, e4, e5]})
        # composition: associative and equal to sequential application
        ctx.count('mon.pose_associativity')
        AB_C = A.rotate_translate_pose(B).rotate_translate_pose(C)
        A_BC = A.rotate_translate_pose(B.rotate_translate_pose(C))
        seq = A.rotate_translate(B.rotate_translate(C.rotate_translate(x)))
        e6 = float(np.linalg.norm(AB_C.translation - A_BC.translation) + np.linalg.norm(AB_C.rot_matrix - A_BC.rot_matrix))
        e7 = float(np.linalg.norm(AB_C.rotate_translate(x) - seq))
        worst = max(worst, e6, e7)
        if max(e6, e7) > 1e-9 * 50:
            ctx.violate('pose:composition-not-associative-or-not-sequential', {'errors': [e6, e7]})
        # matrix / rotation vector / quaternion views agree, matrices stay orthonormal
        ctx.count('mon.pose_views')
        Rv = Rotation.from_rotvec(A.rot_vec).as_matrix()
        qa = np.asarray(A.rot_quat, dtype=float)
        qab = np.asarray(AB_C.rot_quat, dtype=float)
        if abs(np.linalg.norm(qa) - 1) > 1e-9 or abs(np.linalg.norm(qab) - 1) > 1e-9:
            ctx.violate('pose:quaternion-view-not-a-unit-quaternion', {'q': qa.tolist(), 'q_composed': qab.tolist()})
            continue
        Rq = Rotation.from_quat(A.rot_quat).as_matrix()
        e8 = float(np.linalg.norm(Rv - Ra) + np.linalg.norm(Rq - Ra))
        P2 = Pose.from_rot_vec(A.rot_vec, ta)
        P3 = Pose.from_quat(A.rot_quat, ta)
        e9 = float(np.linalg.norm(P2.rot_matrix - Ra) + np.linalg.norm(P3.rot_matrix - Ra) + np.linalg.norm(P2.translation - ta))
        M = AB_C.rot_matrix
        e10 = float(np.linalg.norm(M.T @ M - np.eye(3)) + abs(np.linalg.det(M) - 1))
        mv = A.matrix_vec
        e11 = float(np.linalg.norm(mv[0] - Ra) + np.linalg.norm(mv[1] - ta))
        worst = max(worst, e8, e9, e10, e11)
        if max(e8, e9, e10, e11) > 1e-9:
            ctx.violate('pose:views-disagree-or-not-orthonormal', {'errors': [e8, e9, e10, e11]})
        # a pose is a value: the arrays it was built from belong to the caller, who may fill them again (a scratch array
        # per decoded record, `position += step` in a loop) without changing poses already built
        Rsrc, tsrc = np.array(Ra, dtype=float), np.array(ta, dtype=float)
        P5 = Pose(Rsrc, tsrc)
        P6 = Pose.from_rot_vec(np.array(A.rot_vec, dtype=float), tsrc)
        want5 = Ra @ x + ta
        Rsrc[:] = np.eye(3)[[1, 2, 0]]
        tsrc += 1.0
        ctx.count('mon.poses_whose_source_arrays_were_changed_afterwards')
        e13 = float(np.linalg.norm(P5.rotate_translate(x) - want5) + np.linalg.norm(P6.rotate_translate(x) - want5) +
                    np.linalg.norm(P5.rot_matrix - Ra) + np.linalg.norm(P5.translation - ta))
        if e13 > 1e-9 * max(1.0, float(np.linalg.norm(want5))):
            ctx.violate('pose:changed-when-the-arrays-it-was-built-from-were-written-to', {'error': e13})
        # a quaternion need not be handed over at unit length (a sum, an average, the shorthand (0, 0, 1, 1) for a
        # quarter turn): it denotes the same rotation, and the pose built from it is a rigid motion all the same
        kq = rnd.choice((2.0, 0.5, -3.0, rnd.uniform(0.05, 20.0)))
        P4 = Pose.from_quat(qa * kq, ta)
        M4 = P4.rot_matrix
        ctx.count('mon.poses_from_quaternions_not_of_unit_length')
        e12 = float(np.linalg.norm(M4 - Ra) + np.linalg.norm(M4.T @ M4 - np.eye(3)) +
                    np.linalg.norm(P4.inv_rotate_translate(P4.rotate_translate(x)) - x))
        if e12 > 1e-9 * max(1.0, float(np.linalg.norm(x))):
            ctx.violate('pose:from-a-quaternion-not-of-unit-length-differs-from-the-rotation-it-denotes',
                        {'scale': kq, 'error': e12, 'quaternion': (qa * kq).tolist()})
        # the laws hold for a pose with a history too: every view and transform used, then (a shallow copy of) it
        # rescaled the way the system scaler does, then the laws again on the rescaled pose
        if _ % 3 == 0:
            import copy
            H = Pose(Ra.copy(), ta.copy())
            H.inv_rotate_translate(x), H.rotate_translate(x), H.inv_rotate_translate_pose(B), H.rotate_translate_pose(B)
            H.rot_vec, H.rot_quat, H.matrix_vec, H.translation, H.rot_matrix
            G = copy.copy(H) if rnd.random() < 0.6 else H
            sc = rnd.choice((2.0, 0.5, 1.25, rnd.uniform(0.1, 5.0)))
            G.scale(sc)
            ts = ta * sc
            ctx.count('mon.pose_laws_after_history')
            h1 = float(np.linalg.norm(G.rotate_translate(x) - (Ra @ x + ts)))
            h2 = float(np.linalg.norm(G.inv_rotate_translate(x) - (Ra.T @ (x - ts))))
            h3 = float(np.linalg.norm(G.inv_rotate_translate(G.rotate_translate(x)) - x))
            Pg = G.inv_rotate_translate_pose(G.rotate_translate_pose(B))
            h4 = float(np.linalg.norm(Pg.translation - tb) + np.linalg.norm(Pg.rot_matrix - Rb))
            h5 = float(np.linalg.norm(G.matrix_vec[1] - ts) + np.linalg.norm(G.matrix_vec[0] - Ra) + np.linalg.norm(G.translation - ts))
            h6 = float(np.linalg.norm(Rotation.from_rotvec(G.rot_vec).as_matrix() - Ra) +
                       np.linalg.norm(Rotation.from_quat(G.rot_quat).as_matrix() - Ra))
            if max(h1, h2, h3, h4, h5, h6) > 1e-9 * max(1.0, sc):
                ctx.violate('pose:laws-broken-after-use-and-rescale', {'errors': [h1, h2, h3, h4, h5, h6], 'scale': sc,
                                                                       'copied': G is not H})
    ctx.sample({'pose_triples': desc['n'], 'worst_error': worst})


def run_solver(desc, ctx):
    import numpy as np
    from cflib.localization.lighthouse_bs_vector import LighthouseBsVector
    from cflib.localization.lighthouse_geometry_solver import LighthouseGeometrySolution, LighthouseGeometrySolver
    from cflib.localization.lighthouse_types import Pose
    from cflib.localization.ippe_cf import IppeCf
    rnd = random.Random(desc['seed'])
    defs = LighthouseGeometrySolution()
    worst = 0.0
    for it in range(desc['n']):
        n = rnd.randint(1, 12)
        bsp, cfp, sens, want = [], [], [], []
        for k in range(n):
            rm = lhgen.room(rnd.randrange(1 << 30), n_bs=2, n_cf=1)
            Rb, tb = rm['bs'][rm['ids'][0]]
            Rc, tc = rm['cf'][0]
            zero = rnd.random() < 0.25
            if zero:
                Rc = np.eye(3)
                ctx.count('mon.solver_zero_rotation')
            if rnd.random() < 0.1:
                Rb = np.eye(3)
                tb = np.array([-3.0, 0.2, 0.1])
                ctx.count('mon.solver_zero_rotation')
            if rnd.random() < 0.25:
                # any pose pair at all: the Crazyflie may be beside or behind the base station
                (Rb, tb), (Rc, tc) = _rand_pose(rnd, 'random'), _rand_pose(rnd, 'random')
                zero = False
                behind = True
            else:
                behind = False
            if rnd.random() < 0.15:
                # a pose IN the origin of the frame (the first sample defines it) that is turned all the same, or a base
                # station there; and exact zeros in single coordinates
                which0 = rnd.randrange(3)
                if which0 == 0:
                    tc = np.zeros(3)
                elif which0 == 1:
                    tb = np.zeros(3)
                else:
                    tc = np.array(tc, dtype=float)
                    tc[rnd.randrange(3)] = 0.0
                ctx.count('mon.solver_poses_with_exactly_zero_translation')
            B, C = Pose(Rb, tb), Pose(Rc, tc)
            s = lhgen.SENSORS[rnd.randrange(4)]
            if behind and float(B.inv_rotate_translate(C.rotate_translate(s))[0]) < 0:
                ctx.count('mon.solver_pairs_with_crazyflie_behind_the_base_station')
            rv_b = B.rot_vec if not np.allclose(Rb, np.eye(3)) else np.zeros(3)
            rv_c = C.rot_vec if not zero else np.zeros(3)
            # the optimiser is free to leave a rotation vector in a non-canonical form (longer than half a turn):
            # the same rotation written with |r| in (pi, 2 pi), or with extra full turns
            for which in ('b', 'c'):
                rv = rv_b if which == 'b' else rv_c
                th = float(np.linalg.norm(rv))
                if th > 1e-6 and rnd.random() < 0.2:
                    if rnd.random() < 0.6:
                        rv2 = -rv / th * (2 * math.pi - th)
                    else:
                        rv2 = rv / th * (th + 2 * math.pi)
                    ctx.count('mon.solver_non_canonical_rotation_vectors')
                    if which == 'b':
                        rv_b = rv2
                    else:
                        rv_c = rv2
            bsp.append(np.concatenate((rv_b, tb)))
            cfp.append(np.concatenate((rv_c, tc)))
            sens.append(s)
            v = LighthouseBsVector.from_cart(B.inv_rotate_translate(C.rotate_translate(s)))
            want.append(v.lh_v1_angle_pair)
        a_bsp, a_cfp, a_sens = np.array(bsp), np.array(cfp), np.array(sens)
        if it % 2 == 0:
            # the memory the projection gets for its temporaries was used before (by this process) and holds whatever was
            # left in it: not-a-numbers, infinities, large values - a result must not depend on that
            junk = (np.nan, np.inf, -np.inf, 1e300)[(it // 2) % 4]
            for shape_ in ((n, 3), (n, 1), (n,), (n, 6)):
                held_ = [np.empty(shape_) for _ in range(12)]       # drain what the allocator has in store for this size
                poison_ = [np.full(shape_, junk) for _ in range(12)]
                del held_
                del poison_                                          # ... and leave poisoned blocks behind for the next user
            ctx.count('mon.solver_projections_on_recycled_memory_holding_junk')
        got = LighthouseGeometrySolver._calc_angle_pairs(a_bsp, a_cfp, a_sens, defs)
        ctx.evals()
        ctx.count('mon.solver_projection', n)
        ctx.nontrivial(('solver', desc['seed'], it))
        # angles are compared modulo a full turn (the two paths may land on either side of the +-pi cut)
        dif = (np.asarray(got) - np.asarray(want) + np.pi) % (2 * np.pi) - np.pi
        err = float(np.max(np.abs(dif))) if np.all(np.isfinite(got)) else float('inf')
        worst = max(worst, err)
        if not err <= 1e-9:
            ctx.violate('solver:vectorised-projection-differs-from-type-projection',
                        {'max_abs_diff': err, 'n': n, 'got': np.asarray(got).tolist()[:3], 'want': [list(w) for w in want[:3]]})
    # IPPE axis permutation is a proper rotation and round-trips
    ctx.count('mon.ippe_axes')
    R1, R2 = IppeCf._R_ippe_to_cf, IppeCf._R_cf_to_ippe
    if abs(np.linalg.det(R1) - 1) > 1e-12 or np.linalg.norm(R1 @ R2 - np.eye(3)) > 1e-12 or np.linalg.norm(R1.T @ R1 - np.eye(3)) > 1e-12:
        ctx.violate('ippe:axis-permutation-not-a-proper-rotation', {'R': R1.tolist()})
    v = np.array([0.3, -1.2, 2.5])
    if np.linalg.norm(IppeCf._rotate_vector_to_cf(IppeCf._rotate_vector_to_ippe(v)) - v) > 1e-12:
        ctx.violate('ippe:axis-permutation-does-not-round-trip', {})
    ctx.sample({'angle_pair_batches': desc['n'], 'worst_abs_diff': worst})


def run(desc, ctx):
    core.setup_path()
    import warnings
    warnings.filterwarnings('ignore')
    globals()['run_' + desc['part']](desc, ctx)
