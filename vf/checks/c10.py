"""C10 - unanswered requests are retried until answered, and only then.

detsched virtual timers + a scripted responder on an unused CRTP port (9) behind the sim:// link.
Monitors: every transmission at the link with virtual time and request uid, every simulated Timer
(creation / cancel / expiry), reply arrival times, link open/close times.  Oracle: a reference model
of the retry rule (period T, cancel on the packet whose longest pending prefix is the request's pattern).
"""
import random

from vf import core, gen, harness, simcf

PROPERTY = 'C10'
LEVEL = 'fault_enumeration'
RULE = ('case = up to 6 requests with patterns sharing prefixes of length 1..4 and timeouts in {0.05,0.2,1.0}; per request '
        'the first m transmissions and the first r replies are lost (all subsets for small cases) and the reply delay is '
        'taken from a grid around the timer instants (0.5T, T-e, T, T+e, 1.5T, 2.5T, never); close_link / reopen at every '
        'quarter period around pending timers; links with and without needs_resending. distinct_nontrivial = distinct '
        '(request script, loss script, observed transmission-time vector).')
ASSUMPTIONS = ['virtual time: library processing takes zero time, so retransmission instants are exact',
               'two requests with identical patterns pending at once are not generated (the library keys timers by pattern)']
REQUIRED = ['mon.requests_sent_from_the_error_callback_after_reopening_there', 'mon.delivery_guarantee_flags_of_stream_drivers_checked', 'mon.links_closed_at_the_instant_a_retry_timer_expires_and_reopened_at_once', 'mon.answers_handed_out_by_the_driver_of_a_closed_session', 'mon.pairs_of_requests_pending_with_the_same_expectation', 'mon.answers_that_were_the_first_packet_the_object_ever_received',
            'mon.set_up_requests_of_the_library_on_a_link_without_delivery_guarantee',
            'mon.cases_with_a_second_crazyflie_object_waiting_for_the_same_answer',
            'mon.requests_issued_from_the_callback_of_the_previous_answer_with_the_same_expectation',
            'mon.sessions_ended_by_a_link_error_with_requests_pending', 'mon.connection_attempts_failed_with_requests_pending', 'mon.requests', 'mon.retransmissions_expected', 'mon.retransmissions_observed', 'mon.cancelled_by_reply',
            'mon.never_answered_windows', 'mon.reliable_link_cases', 'mon.close_reopen_cases', 'mon.timers_observed',
            'mon.shared_prefix_cases', 'mon.requests_sent_while_the_link_was_being_closed',
            'mon.radio_link_mode_flag_checks', 'mon.usb_driver_close_cases']
DESC_TIMEOUT = 900
PORT = 9
EPS = 1e-9


def cases(tier, seed):
    rnd = random.Random(seed * 2654435761 % (2 ** 31) + 4)
    out = []
    n = 400 if tier == 'quick' else 2500
    for i in range(n):
        kind = ('patterns', 'patterns', 'reopen', 'reliable', 'patterns', 'reopen')[i % 6]
        out.append({'seed': seed * 1000003 + i, 'kind': kind, 'nreq': rnd.randint(1, 6),
                    'sched': rnd.choice(('rtb', 'random', 'pct')), 'quarter': rnd.randint(0, 11)})
    out += [{'seed': seed * 11 + i, 'kind': ('failopen', 'lostreopen')[i % 2], 'sched': rnd.choice(('rtb', 'random', 'pct'))}
            for i in range(60 if tier == 'quick' else 400)]
    out += [{'seed': seed * 23 + i, 'kind': 'cbreopen', 'sched': rnd.choice(('rtb', 'random', 'pct'))} for i in range(40 if tier == 'quick' else 300)]
    out += [{'seed': seed * 13 + i, 'kind': 'firstreply', 'sched': rnd.choice(('rtb', 'random', 'pct'))} for i in range(24 if tier == 'quick' else 200)]
    out += [{'seed': seed * 17 + i, 'kind': 'twins', 'sched': rnd.choice(('rtb', 'random', 'pct'))} for i in range(24 if tier == 'quick' else 200)]
    out += [{'seed': seed * 19 + i, 'kind': 'latepk', 'sched': ('random', 'pct', 'pct', 'rtb')[i % 4]} for i in range(240 if tier == 'quick' else 1500)]
    out += [{'seed': seed * 7 + i, 'kind': 'radioflag'} for i in range(2 if tier == 'quick' else 12)]
    out += [{'seed': seed * 5 + i, 'kind': 'usbclose'} for i in range(2 if tier == 'quick' else 12)]
    return out


RACER_UID = 199
BYSTANDER_UID = 198


class Responder(simcf.SimCF):
    """simcf plus a scripted service on port 9: request data = [uid, pattern...]; reply = same data."""

    def __init__(self, profile, script):
        simcf.SimCF.__init__(self, profile)
        self.script = script          # uid -> {'lose_tx': m, 'lose_reply': r, 'delay': d or None, 'reply': bytes}
        self.seen = {}
        self.get_link = lambda: None

    def handle(self, header, data):
        if (header >> 4) & 0xF != PORT:
            return simcf.SimCF.handle(self, header, data)
        data = bytes(data)
        self.rx.append((self.now(), header, data))
        uid = data[-1]
        sc = self.script.get(uid)
        if sc is None:
            return []
        n = self.seen.get(uid, 0) + 1
        self.seen[uid] = n
        if n <= sc['lose_tx']:
            return []                      # uplink lost: the device never saw it (modelled here)
        k = n - sc['lose_tx']
        if k <= sc['lose_reply'] or sc['delay'] is None:
            return []
        link = self.get_link()
        if link is not None and not link.closed:
            link.inject(header & 0xF3, bytes(sc['reply']), sc['delay'])
        return []


class _RadioFlagCtx:
    """Runs the radio start-up scenarios of the C01 harness and keeps only what C10 depends on: whether the
    driver's delivery-guarantee flag (needs_resending) matches the negotiated link mode."""

    def __init__(self, ctx):
        self._ctx = ctx
        self.violations = []

    def violate(self, mech, detail, replay=None):
        if mech == 'radio:needs_resending-inconsistent-with-safelink':
            self._ctx.violate('retry:radio-link-delivery-guarantee-flag-wrong', detail,
                              replay={'kind': 'radioflag', 'seed': detail.get('_seed', 0)})

    def __getattr__(self, name):
        if name in ('count', 'nontrivial', 'sample'):
            return lambda *a, **k: None
        return getattr(self._ctx, name)


def run_radioflag(desc, ctx):
    harness.init()
    from vf.checks import c01
    proxy = _RadioFlagCtx(ctx)
    for lost in (0, 3, 10):
        for variant in range(6):
            w = [1] * lost + [0] * 3       # first `lost` negotiation exchanges lost on the uplink
            sl = variant < 4
            for prior in (False, True):
                c01.one(proxy, list(w), 1, 1, [12], [12], 5, safelink=sl, nsub=1, sseed=desc['seed'] * 13 + variant, policy='random',
                        label='delivery-guarantee-flag', garbage=(variant == 4), prior=prior)
                ctx.count('mon.radio_link_mode_flag_checks')


def run_usbclose(desc, ctx):
    """Nothing is transmitted on a closed link, at the USB driver itself: after close() returned - also when the cable
    was pulled and the control transfer made by close() failed - a packet handed to the driver object is not written."""
    harness.init()
    from vf import detsched as ds
    import cflib.crtp.usbdriver as ud
    from cflib.crtp.crtpstack import CRTPPacket
    rnd = random.Random(desc['seed'])
    # the drivers of links that deliver every packet themselves (USB, TCP, UART) say so: no retransmission by the library
    import importlib
    for modname, clsname in (('cflib.crtp.tcpdriver', 'TcpDriver'), ('cflib.crtp.serialdriver', 'SerialDriver'), ('cflib.crtp.usbdriver', 'UsbDriver')):
        drv = getattr(importlib.import_module(modname), clsname)()
        ctx.evals()
        ctx.count('mon.delivery_guarantee_flags_of_stream_drivers_checked')
        if drv.needs_resending is not False:
            ctx.violate('retry:driver-of-a-link-that-guarantees-delivery-asks-for-retransmissions',
                        {'driver': clsname, 'needs_resending': repr(drv.needs_resending)}, replay={'kind': 'usbclose', 'seed': desc['seed']})
    for case in range(8):
        fail_on_close = case % 2 == 1
        ob = {'writes': [], 'closed_at': None, 'errors': []}

        class FakeCfUsb:
            def __init__(self, devid=0):
                self.dev = object()
                self.handle = None
                self.unplugged = False

            def set_crtp_to_usb(self, on):
                if not on and fail_on_close:
                    self.unplugged = True
                    raise IOError('USB device gone')

            def send_packet(self, data):
                ob['writes'].append((ds.CUR.now if ds.CUR else 0.0, bytes(bytearray(data)), ob['closed_at'] is not None))

            def receive_packet(self):
                ds.v_sleep(0.01)
                return ()

            def close(self):
                pass

            def scan(self):
                return []

        def fn(s):
            old = ud.CfUsb
            ud.CfUsb = FakeCfUsb
            try:
                drv = ud.UsbDriver()
                drv.connect('usb://0', None, lambda msg: ob['errors'].append(msg))
                for i in range(rnd.randint(1, 3)):
                    drv.send_packet(CRTPPacket(0x5C, [i, 1, 2]))
                s.sleep(rnd.choice((0.0, 0.005, 0.05)))
                drv.close()
                ob['closed_at'] = s.now
                s.sleep(rnd.choice((0.0, 0.02)))
                for i in range(2):
                    drv.send_packet(CRTPPacket(0x3C, [9, i]))
                s.sleep(0.05)
            finally:
                ud.CfUsb = old
        _, abort, sch = harness.sched_case(fn, seed=desc['seed'] * 11 + case, policy=('random', 'rtb')[case % 2], horizon=200.0)
        ctx.evals()
        ctx.count('mon.usb_driver_close_cases')
        ctx.nontrivial(('usbclose', desc['seed'], case))
        info = {'control_transfer_in_close_failed': fail_on_close}
        if abort is not None or sch.deaths:
            ctx.violate('retry:usb:hang-or-thread-death', dict(info, abort=str(abort), deaths=[d[1] for d in sch.deaths][:2]),
                        replay={'kind': 'usbclose', 'seed': desc['seed']})
            continue
        late = [w for w in ob['writes'] if w[2]]
        if late:
            ctx.violate('retry:transmitted-on-a-closed-usb-link', dict(info, packets=[w[1].hex() for w in late][:3]),
                        replay={'kind': 'usbclose', 'seed': desc['seed']})
        if not any(not w[2] for w in ob['writes']):
            ctx.violate('retry:usb:nothing-written-while-the-link-was-open', info, replay={'kind': 'usbclose', 'seed': desc['seed']})


def run_lost(desc, ctx):
    """A session that ends through a link error - while the connection is still being set up (nothing received yet:
    connection_failed) or while connected (connection_lost) - with requests still pending, and a new session soon after:
    no request of the dead session is transmitted in the new one."""
    from vf import detsched as ds, simlink
    from cflib.crazyflie import Crazyflie
    from cflib.crtp.crtpstack import CRTPPacket
    rnd = random.Random(desc['seed'])
    prof = gen.profile(desc['seed'], 1, 1, proto=10)
    cbreopen = desc['kind'] == 'cbreopen'
    early = desc['kind'] == 'failopen' or (cbreopen and desc['seed'] % 2 == 1)
    reqs = []
    for i in range(rnd.randint(1, 4)):
        reqs.append({'uid': 200 + i, 'chan': rnd.randrange(4), 'pattern': [rnd.randrange(1, 250) for _ in range(rnd.randint(1, 3))],
                     'T': rnd.choice((0.05, 0.2, 0.2, 1.0)), 'lose_tx': 0, 'lose_reply': 0, 'delay': None, 'reply': b''})
    # 'cbreopen': the application opens the link again from inside the callback that tells it about the error, and sends
    # a request of the NEW session there; that request loses its first transmissions and must be retried until answered
    newpat = [rnd.randrange(1, 250) for _ in range(rnd.randint(1, 3))]
    newreq = {'uid': 250, 'chan': rnd.randrange(4), 'pattern': newpat, 'T': rnd.choice((0.05, 0.1, 0.2)), 'lose_tx': rnd.randint(1, 3),
              'lose_reply': 0, 'delay': 0.0, 'reply': bytes(newpat) + b'\x07'}
    dev = Responder(prof, {r['uid']: r for r in reqs + ([newreq] if cbreopen else [])})
    spec = simlink.LinkSpec(dev, needs_resending=True, latency=0.0)
    uri = 'sim://c10lost'
    simlink.SIMS[uri] = spec
    ob = {'problems': []}

    def fn(s):
        dev.now = lambda: s.now
        cf = Crazyflie()
        done, failed, lost = ds.Event(), ds.Event(), ds.Event()
        cf.connected.add_callback(lambda u: done.set())
        cf.connection_failed.add_callback(lambda u, m: failed.set())
        cf.connection_lost.add_callback(lambda u, m: lost.set())
        spec.fail_reporter = rnd.choice(('driver', 'sender'))
        dev.get_link = lambda: cf.link

        def reopen_in_callback(u, m):
            if ob.get('reopen_at') is not None:
                return
            spec.tx_filter = None
            spec.fail_after_tx = None
            ob['reopen_at'] = s.now
            ob['error_at'] = s.now
            done.clear()
            cf.open_link(uri)
            pk = CRTPPacket()
            pk.set_header(PORT, newreq['chan'])
            pk.data = bytes(newreq['pattern']) + bytes([newreq['uid']])
            cf.send_packet(pk, expected_reply=tuple(newreq['pattern']), timeout=newreq['T'])
            ob['new_request_sent_in_session'] = cf.link.session if cf.link is not None else None
        if cbreopen:
            cf.connection_lost.add_callback(reopen_in_callback)
            cf.connection_failed.add_callback(reopen_in_callback)
        if early:
            # the Crazyflie is not there: nothing is ever received, the driver gives up after some transmissions
            spec.tx_filter = lambda sp, n, h, d: False
            spec.fail_after_tx = rnd.randint(2, 8)
            cf.open_link(uri)
        else:
            cf.open_link(uri)
            if not done.wait(300.0):
                ob['problems'].append('connect failed')
                return
            s.sleep(0.35)
        ob['session1'] = cf.link.session if cf.link is not None else None
        ob['t_base'] = s.now
        ob['judged'] = set()
        for r in reqs:
            if ob.get('reopen_at') is not None:
                break        # reopened from the callback already: what is sent from here on belongs to the new session
            pk = CRTPPacket()
            pk.set_header(PORT, r['chan'])
            pk.data = bytes(r['pattern']) + bytes([r['uid']])
            cf.send_packet(pk, expected_reply=tuple(r['pattern']), timeout=r['T'])
            if ob.get('reopen_at') is None:
                ob['judged'].add(r['uid'])      # handed over completely while the first session was the current one
        T0 = reqs[0]['T']
        if early:
            if not failed.wait(60.0):
                ob['problems'].append('the failing connection attempt was never reported')
                return
        else:
            s.sleep(rnd.choice((0.0, T0 / 4.0, T0 * 0.75, T0 * 1.5)))
            link = cf.link
            if link is None:
                ob['problems'].append('link gone before the fault')
                return
            link._fault()
            if not lost.wait(60.0):
                ob['problems'].append('the lost link was never reported')
                return
        if not cbreopen:
            ob['error_at'] = s.now
            ob['state_after_error'] = str(cf.state)
            s.sleep(rnd.choice((0.0, T0 / 4.0, T0 / 2.0, T0 * 0.75)))
            spec.tx_filter = None
            spec.fail_after_tx = None
            ob['reopen_at'] = s.now
            done.clear()
            cf.open_link(uri)
        if not done.wait(300.0):
            ob['problems'].append('second connect failed')
            return
        s.sleep(max(r['T'] for r in reqs) * 3 + 1.0)
        ob['patterns_left'] = len(cf._answer_patterns)
        cf.close_link()
        s.sleep(0.5)
    _, abort, s = harness.sched_case(fn, seed=desc['seed'], policy=desc['sched'], line_p=harness.line_p_for(desc['seed'], 6, 0.15), horizon=5000.0,
                                     max_steps=12_000_000)
    ctx.evals()
    rp = dict(desc)
    ctx.count('mon.sessions_ended_by_a_link_error_with_requests_pending')
    if early:
        ctx.count('mon.connection_attempts_failed_with_requests_pending')
    if abort is not None:
        ctx.violate('retry:hang:%s' % type(abort).__name__, {'abort': str(abort), 'threads': abort.table}, replay=rp)
        return
    for (name, exc, tb) in s.deaths:
        ctx.violate('retry:thread-died:%s:%s' % (name.split('#')[0], exc.split('(')[0]), {'traceback': tb}, replay=rp)
    if ob['problems']:
        ctx.violate('retry:lost-session:' + ob['problems'][0].replace(' ', '-'), {'kind': desc['kind']}, replay=rp)
        return
    uids = {r['uid'] for r in reqs if r['uid'] in ob.get('judged', ())}
    mine = [t for t in spec.tx if (t[2] >> 4) & 0xF == PORT and t[3] and t[3][-1] in uids]
    ctx.count('mon.requests', len(reqs))
    ctx.count('mon.retransmissions_observed', max(0, len([t for t in mine if t[1] == ob['session1']]) - len(reqs)))
    later = [t for t in mine if t[1] != ob['session1']]
    if cbreopen:
        new_tx = [t for t in spec.tx if (t[2] >> 4) & 0xF == PORT and t[3] and t[3][-1] == newreq['uid']]
        ctx.count('mon.requests_sent_from_the_error_callback_after_reopening_there')
        want = newreq['lose_tx'] + 1
        info = {'transmissions': [(round(t[0] - ob['reopen_at'], 6), t[1]) for t in new_tx[:8]], 'lost_transmissions': newreq['lose_tx'],
                'timeout': newreq['T'], 'how_the_session_ended': 'connection attempt failed' if early else 'link lost while connected',
                'reporter': spec.fail_reporter}
        # the answer counts from the moment the driver hands it to the library (the packet thread may still sleep up to a
        # second after the error before it looks at the new link: retransmissions until then are correct)
        answers = [t for t in spec.rx if (t[2] >> 4) & 0xF == PORT and bytes(t[3]) == newreq['reply']]
        info['answer_handed_over_at'] = round(answers[0][0] - ob['reopen_at'], 6) if answers else None
        if len(new_tx) < want or not answers:
            ctx.violate('retry:unanswered-request-of-the-session-opened-in-the-error-callback-not-retransmitted', info, replay=rp)
        elif any(t[0] > answers[0][0] + 1e-6 for t in new_tx):
            ctx.violate('retry:retransmitted-after-the-answer:request-of-the-session-opened-in-the-error-callback', info, replay=rp)
    ctx.nontrivial((desc['kind'], core.h64([(r['pattern'], r['T']) for r in reqs]), s.signature()))
    if later:
        ctx.violate('retry:request-of-an-earlier-session-transmitted-in-a-later-session',
                    {'how_the_session_ended': 'connection attempt failed' if early else 'link lost while connected',
                     'packets': [(round(t[0] - ob['t_base'], 6), t[3].hex()) for t in later[:4]],
                     'error_offset': round(ob['error_at'] - ob['t_base'], 6), 'reopen_offset': round(ob['reopen_at'] - ob['t_base'], 6),
                     'state_after_error': ob.get('state_after_error')}, replay=rp)
    # (a retry that was already past the link test when the error arrived calls send_packet() of the closed driver
    # object, which transmits nothing: observed, not judged - see DESIGN section 6)
    ctx.count('obs.send_packet_calls_on_the_closed_driver_object', len(spec.tx_after_close))
    if ob.get('patterns_left'):
        ctx.count('obs.patterns_left_registered_in_the_new_session', ob['patterns_left'])


def run_firstreply(desc, ctx):
    """The first packet a Crazyflie object ever receives is the answer to a pending request (the library's own first
    packet was lost on the air and is not one that is retried): that request is answered like any other and not
    transmitted again."""
    from vf import detsched as ds, simlink
    from cflib.crazyflie import Crazyflie
    from cflib.crtp.crtpstack import CRTPPacket
    rnd = random.Random(desc['seed'])
    prof = gen.profile(desc['seed'], 1, 1, proto=10)
    T = rnd.choice((0.05, 0.2, 1.0))
    pat = [rnd.randrange(1, 250) for _ in range(rnd.randint(1, 3))]
    r = {'uid': 200, 'chan': rnd.randrange(4), 'pattern': pat, 'T': T, 'lose_tx': 0, 'lose_reply': 0, 'delay': rnd.choice((0.0, 0.3 * T)),
         'reply': bytes(pat) + bytes([rnd.randrange(1, 250), 200])}
    dev = Responder(prof, {200: r})
    spec = simlink.LinkSpec(dev, needs_resending=True, latency=0.0)
    uri = 'sim://c10first'
    simlink.SIMS[uri] = spec
    lost = rnd.randint(1, 3)
    spec.tx_filter = lambda sp, n, h, d: n > lost or (h >> 4) & 0xF == PORT      # the first packet(s) of the set-up are lost on the air
    ob = {}

    def fn(s):
        dev.now = lambda: s.now
        cf = Crazyflie()
        cf.open_link(uri)
        dev.get_link = lambda: cf.link
        s.sleep(0.01)
        ob['rx_before'] = len(spec.rx)
        pk = CRTPPacket()
        pk.set_header(PORT, r['chan'])
        pk.data = bytes(pat) + bytes([200])
        ob['t0'] = s.now
        cf.send_packet(pk, expected_reply=tuple(pat), timeout=T)
        s.sleep(6 * T + 0.5)
        ob['t1'] = s.now
        cf.close_link()
        s.sleep(0.3)
    _, abort, sch = harness.sched_case(fn, seed=desc['seed'], policy=desc['sched'], horizon=2000.0)
    ctx.evals()
    rp = dict(desc)
    if abort is not None or sch.deaths:
        ctx.violate('retry:hang:first-reply', {'abort': str(abort), 'deaths': [d[1] for d in sch.deaths][:2]}, replay=rp)
        return
    mine = [t[0] for t in spec.tx if (t[2] >> 4) & 0xF == PORT and t[3] and t[3][-1] == 200]
    got = [x for x in spec.rx if (x[2] >> 4) & 0xF == PORT]
    if ob.get('rx_before') == 0 and got:
        ctx.count('mon.answers_that_were_the_first_packet_the_object_ever_received')
        ctx.nontrivial(('firstreply', tuple(pat), T, sch.signature()))
        late = [round(t - ob['t0'], 4) for t in mine if t > got[0][0] + 1e-7]
        if late:
            ctx.violate('retry:retransmitted-after-the-answer',
                        {'answer_was_the_first_packet_ever_received': True, 'T': T, 'answered_at_offset': round(got[0][0] - ob['t0'], 4),
                         'late_offsets': late[:5]}, replay=rp)


def run_twins(desc, ctx):
    """Two requests that expect the same answer are pending together (two threads reading the same thing): neither is
    answered, both keep being retransmitted at their interval."""
    from vf import detsched as ds, simlink
    from cflib.crazyflie import Crazyflie
    from cflib.crtp.crtpstack import CRTPPacket
    rnd = random.Random(desc['seed'])
    prof = gen.profile(desc['seed'], 1, 1, proto=10)
    T = rnd.choice((0.05, 0.2, 1.0))
    pat = [rnd.randrange(1, 250) for _ in range(rnd.randint(1, 3))]
    chan = rnd.randrange(4)
    dev = Responder(prof, {})
    spec = simlink.LinkSpec(dev, needs_resending=True, latency=0.0)
    uri = 'sim://c10twins'
    simlink.SIMS[uri] = spec
    gap = rnd.choice((0.0, 0.25 * T, 0.5 * T))
    ob = {}

    def fn(s):
        dev.now = lambda: s.now
        cf = Crazyflie()
        done = ds.Event()
        cf.connected.add_callback(lambda u: done.set())
        cf.open_link(uri)
        if not done.wait(300.0):
            ob['problem'] = 'connect failed'
            return
        s.sleep(0.35)
        ob['t0'] = s.now
        for uid in (200, 201):
            pk = CRTPPacket()
            pk.set_header(PORT, chan)
            pk.data = bytes(pat) + bytes([uid])
            cf.send_packet(pk, expected_reply=tuple(pat), timeout=T)
            if uid == 200 and gap:
                s.sleep(gap)
        s.sleep(6 * T + 0.01)
        ob['t1'] = s.now
        cf.close_link()
        s.sleep(0.3)
    _, abort, sch = harness.sched_case(fn, seed=desc['seed'], policy=desc['sched'], horizon=2000.0)
    ctx.evals()
    rp = dict(desc)
    if abort is not None or sch.deaths or ob.get('problem'):
        ctx.violate('retry:hang:twins', {'abort': str(abort), 'deaths': [d[1] for d in sch.deaths][:2], 'problem': ob.get('problem')}, replay=rp)
        return
    ctx.count('mon.pairs_of_requests_pending_with_the_same_expectation')
    ctx.nontrivial(('twins', tuple(pat), T, gap, sch.signature()))
    for uid in (200, 201):
        n = len([t for t in spec.tx if (t[2] >> 4) & 0xF == PORT and t[3] and t[3][-1] == uid and t[0] <= ob['t1']]) - 1
        if n < 4:
            ctx.violate('retry:unanswered-request-not-retried-for-as-long-as-the-link-is-open',
                        {'two_requests_pending_with_the_same_expectation': True, 'uid': uid, 'T': T, 'retransmissions_in_6_intervals': n,
                         'sent_apart_by': gap}, replay=rp)


def run_latepk(desc, ctx):
    """An answer reaches the driver at the very moment the application closes the link and comes out of that driver's
    receive call only when the application has already reconnected (the receiving thread was still inside the call):
    it belongs to the closed session.  A request of the new session that expects the same answer and is not answered on
    its own link keeps being retransmitted."""
    from vf import detsched as ds, simlink
    from cflib.crazyflie import Crazyflie
    from cflib.crtp.crtpstack import CRTPPacket
    rnd = random.Random(desc['seed'])
    prof = gen.profile(desc['seed'], 1, 1, proto=10)
    T = rnd.choice((0.05, 0.2))
    pat = [rnd.randrange(1, 250) for _ in range(rnd.randint(1, 3))]
    chan = rnd.randrange(4)
    D = rnd.choice((0.01, 0.03, T / 2.0))
    expiry = desc['seed'] % 3 == 2
    if expiry:
        # variant: nothing answers; the link is closed at the very instant the retry timer of the request expires (its thread
        # may already be on its way to retransmit), and the new session asks the same thing at once
        D = T
    dev = Responder(prof, {210: {'lose_tx': 0, 'lose_reply': 0, 'delay': None if expiry else D, 'reply': bytes(pat) + b'\xAA'}})
    spec = simlink.LinkSpec(dev, needs_resending=True, latency=0.0)
    spec.deliver_queued_after_close = True
    uri = 'sim://c10late'
    simlink.SIMS[uri] = spec
    ob = {}

    def fn(s):
        dev.now = lambda: s.now
        cf = Crazyflie()
        dev.get_link = lambda: cf.link
        done = ds.Event()
        cf.connected.add_callback(lambda u: done.set())
        cf.open_link(uri)
        if not done.wait(300.0):
            ob['problem'] = 'connect failed'
            return
        s.sleep(0.35)
        pk = CRTPPacket()
        pk.set_header(PORT, chan)
        pk.data = bytes(pat) + bytes([210])
        cf.send_packet(pk, expected_reply=tuple(pat), timeout=T)
        if expiry:
            s.pct_rearm(depth=1, window=rnd.choice((15, 40, 100, 250)))
        s.sleep(D)                # the answer reaches the driver now ...
        old = cf.link
        ob['session1'] = old.session if old is not None else None
        cf.close_link()           # ... and the application closes the link now
        done.clear()
        cf.open_link(uri)
        pk = CRTPPacket()
        pk.set_header(PORT, chan)
        pk.data = bytes(pat) + bytes([211])
        ob['t0'] = s.now
        ob['rx_after_close_before'] = getattr(spec, 'rx_after_close', 0)
        cf.send_packet(pk, expected_reply=tuple(pat), timeout=T)
        s.sleep(6 * T + 0.01)
        ob['t1'] = s.now
        ob['handed_out_after_close'] = getattr(spec, 'rx_after_close', 0)
        ob['old_closed'] = bool(old is not None and old.closed)
        cf.close_link()
        s.sleep(0.3)
    if expiry:
        # PCT schedules whose priority-change point is drawn among the steps around the expiry (every statement of the retry
        # path is a step): the timer thread is demoted somewhere between waking up and deciding whether to retransmit
        _, abort, sch = harness.sched_case(fn, seed=desc['seed'], policy='pct', horizon=2000.0, line_p=0.01,
                                           line_focus=('_no_answer_do_retry', 'send_packet'), line_focus_p=1.0)
    else:
        _, abort, sch = harness.sched_case(fn, seed=desc['seed'], policy=desc['sched'], horizon=2000.0)
    ctx.evals()
    rp = dict(desc)
    if abort is not None or sch.deaths or ob.get('problem'):
        ctx.violate('retry:hang:latepk', {'abort': str(abort), 'deaths': [d[1] for d in sch.deaths][:2], 'problem': ob.get('problem')}, replay=rp)
        return
    if expiry:
        ctx.count('mon.links_closed_at_the_instant_a_retry_timer_expires_and_reopened_at_once')
        later = [t for t in spec.tx if (t[2] >> 4) & 0xF == PORT and t[3] and t[3][-1] == 210 and t[1] != ob.get('session1')]
        if later:
            ctx.violate('retry:request-of-an-earlier-session-transmitted-in-a-later-session',
                        {'link_closed_at_the_instant_its_retry_timer_expired': True, 'T': T, 'transmissions_in_the_new_session': len(later)}, replay=rp)
    else:
        ctx.count('mon.reconnects_with_an_answer_of_the_closed_session_still_inside_its_driver')
    if ob.get('handed_out_after_close'):
        ctx.count('mon.answers_handed_out_by_the_driver_of_a_closed_session')
    ctx.nontrivial(('latepk', tuple(pat), T, D, sch.signature()))
    n = len([t for t in spec.tx if (t[2] >> 4) & 0xF == PORT and t[3] and t[3][-1] == 211 and t[0] <= ob['t1']]) - 1
    if n < 4:
        ctx.violate('retry:unanswered-request-not-retried-for-as-long-as-the-link-is-open',
                    {'answer_of_the_closed_session_handed_out_after_the_reconnect': True, 'T': T, 'retransmissions_in_6_intervals': n}, replay=rp)


def run(desc, ctx):
    harness.init()
    if desc.get('kind') == 'latepk':
        return run_latepk(desc, ctx)
    if desc.get('kind') == 'twins':
        return run_twins(desc, ctx)
    if desc.get('kind') == 'firstreply':
        return run_firstreply(desc, ctx)
    if desc.get('kind') in ('failopen', 'lostreopen', 'cbreopen'):
        return run_lost(desc, ctx)
    if desc.get('kind') == 'radioflag':
        return run_radioflag(desc, ctx)
    if desc.get('kind') == 'usbclose':
        return run_usbclose(desc, ctx)
    from vf import detsched as ds, simlink
    from cflib.crazyflie import Crazyflie
    from cflib.crtp.crtpstack import CRTPPacket
    rnd = random.Random(desc['seed'])
    kind = desc['kind']
    prof = gen.profile(desc['seed'], 1, 1, proto=10)
    # ---- request script
    reqs = []
    base = [rnd.randrange(1, 250) for _ in range(4)]
    used = set()
    for i in range(desc['nreq']):
        ln = rnd.randint(1, 4)
        pat = list(base[:ln])
        if rnd.random() < 0.5:
            pat[-1] = rnd.randrange(1, 250)
        chan = rnd.randrange(4) if rnd.random() < 0.3 else 0
        key = (chan, tuple(pat))
        if key in used:
            continue
        used.add(key)
        T = rnd.choice((0.05, 0.2, 0.2, 1.0))
        grid = [0.0, 0.0, 0.5 * T, T - 1e-6, T, T + 1e-6, 1.5 * T, 2.5 * T, 3.0 * T, None]      # 0.0: answer available at once
        delay = rnd.choice(grid)
        uid = 200 + i
        # the reply carries pattern + filler + uid; the filler decides which pending pattern is its longest prefix
        reply = bytes(pat) + bytes([rnd.randrange(1, 250) for _ in range(rnd.randint(0, 2))]) + bytes([uid])
        if rnd.random() < 0.2:
            reply = bytes(pat)        # the shortest packet that matches: nothing after the expected bytes
        reqs.append({'uid': uid, 'chan': chan, 'pattern': pat, 'T': T, 'at': round(rnd.choice((0.0, 0.0, 0.01, 0.07, 0.33)), 3),
                     'lose_tx': rnd.choice((0, 0, 1, 2)), 'lose_reply': rnd.choice((0, 0, 1)), 'delay': delay,
                     'reply': reply})
    if not reqs:
        return
    # a request issued from inside the port callback that handles the answer to the previous one, with the SAME expected
    # reply (the next read of the same address, the same parameter written again), and lost on its first transmission(s)
    chained = []
    if kind == 'patterns':
        for r in list(reqs):
            # (the parent's answer must be its own: no other request of the case expects a longer prefix of those bytes,
            # or that request would be the one the answer cancels and the parent would still be pending)
            swallowed = any(q is not r and q['chan'] == r['chan'] and len(q['pattern']) > len(r['pattern']) and
                            bytes(q['pattern']) == bytes(r['reply'][:len(q['pattern'])]) for q in reqs)
            if r['delay'] is not None and r['lose_reply'] == 0 and len(r['reply']) > len(r['pattern']) and not swallowed and \
                    rnd.random() < 0.35:
                u2 = r['uid'] + 40
                chained.append({'uid': u2, 'chan': r['chan'], 'pattern': r['pattern'], 'T': r['T'], 'at': None, 'chain_of': r['uid'],
                                'lose_tx': rnd.choice((1, 1, 2)), 'lose_reply': 0, 'delay': rnd.choice((0.0, 0.5 * r['T'])),
                                'reply': bytes(r['pattern']) + bytes([u2]), 'parent_reply': bytes(r['reply'])})
        reqs += chained
    shared = len({tuple(r['pattern'][:1]) for r in reqs}) < len(reqs)
    script = {r['uid']: r for r in reqs}
    dev = Responder(prof, script)
    needs = kind != 'reliable'
    spec = simlink.LinkSpec(dev, needs_resending=needs, latency=0.0)
    uri = 'sim://c10'
    simlink.SIMS[uri] = spec
    bystander = kind in ('patterns', 'reopen') and needs and desc['seed'] % 3 == 0
    if bystander:
        dev2 = Responder(gen.profile(desc['seed'] + 5, 1, 1, proto=10), {})
        spec2 = simlink.LinkSpec(dev2, needs_resending=True, latency=0.0)
        uri2 = 'sim://c10b'
        simlink.SIMS[uri2] = spec2
    # the link asks the device; delayed replies are injected by the harness wrapper below
    ob = {'sessions': [], 'problems': [], 'sent_at': {}, 'sent_seq': {}, 'close_at': None, 'reopen_at': None, 't_end': None}

    def fn(s):
        dev.now = lambda: s.now
        cf = Crazyflie()
        # when was a received packet matched against the pending requests?  (this callback runs right after the library's own
        # all-packet callbacks, in the thread that dispatches the packet)
        ob['dispatch_steps'] = {}
        ob['send_steps'] = {}
        cf.packet_received.callbacks.insert(0, lambda pk_: ob['dispatch_steps'].__setitem__(len(spec.rx) - 1, [s.steps, None]))
        cf.packet_received.add_callback(lambda pk_: ob['dispatch_steps'].get(len(spec.rx) - 1, [None, None]).__setitem__(1, s.steps))
        done = ds.Event()
        cf.fully_connected.add_callback(lambda u: done.set())
        cf.connected.add_callback(lambda u: done.set())

        def connect():
            done.clear()
            cf.open_link(uri)
            if not done.wait(300.0):
                ob['problems'].append('connect failed')
                return False
            s.sleep(0.35)
            dev.get_link = lambda: cf.link
            return True
        if not connect():
            return
        if bystander:
            # another Crazyflie object of the same process (a swarm member) on a link of its own has the SAME expected
            # answer pending, and that answer never comes: its retries are its own business
            cf2 = Crazyflie()
            done2 = ds.Event()
            cf2.connected.add_callback(lambda u: done2.set())
            cf2.open_link(uri2)
            if not done2.wait(300.0):
                ob['problems'].append('bystander connect failed')
                return
            s.sleep(0.35)
            pkb = CRTPPacket()
            pkb.set_header(PORT, reqs[0]['chan'])
            pkb.data = bytes(reqs[0]['pattern']) + bytes([BYSTANDER_UID])
            ob['bystander_sent_at'] = s.now
            cf2.send_packet(pkb, expected_reply=tuple(reqs[0]['pattern']), timeout=reqs[0]['T'])
        t_base = s.now
        ob['t_base'] = t_base
        ob['session1'] = cf.link.session
        ob['tx0'] = len(spec.tx)
        ob['rx0'] = len(spec.rx)
        def chain_cb(pkin):
            if not pkin.data:
                return
            for r2 in chained:
                if bytes(pkin.data) == r2['parent_reply'] and pkin.channel == r2['chan'] and r2['uid'] not in ob['sent_at']:
                    pk2 = CRTPPacket()
                    pk2.set_header(PORT, r2['chan'])
                    pk2.data = bytes(r2['pattern']) + bytes([r2['uid']])
                    ob['sent_at'][r2['uid']] = s.now
                    ob['sent_seq'][r2['uid']] = spec.seq
                    st0 = s.steps
                    cf.send_packet(pk2, expected_reply=tuple(r2['pattern']), timeout=r2['T'])
                    ob['send_steps'][r2['uid']] = (st0, s.steps)
        if chained:
            cf.add_port_callback(PORT, chain_cb)
        pend = sorted([r for r in reqs if r['at'] is not None], key=lambda r: r['at'])
        for r in pend:
            dt = t_base + r['at'] - s.now
            if dt > 0:
                s.sleep(dt)
            pk = CRTPPacket()
            pk.set_header(PORT, r['chan'])
            pk.data = bytes(r['pattern']) + bytes([r['uid']])
            ob['sent_at'][r['uid']] = s.now
            ob['sent_seq'][r['uid']] = spec.seq
            st0 = s.steps
            cf.send_packet(pk, expected_reply=tuple(r['pattern']), timeout=r['T'])
            ob['send_steps'][r['uid']] = (st0, s.steps)
        if kind == 'reopen':
            # close at a quarter period around the pending timers, reopen a quarter period later
            T0 = reqs[0]['T']
            s.sleep(max(0.0, t_base + reqs[0]['at'] + desc['quarter'] * T0 / 4.0 - s.now))
            ob['close_at'] = s.now
            racer_th = None
            if desc['seed'] % 2 == 0 and needs:
                # another application thread sends a request of its own at the moment the link is being closed
                go = ds.Event()

                def racer():
                    go.wait()
                    pk = CRTPPacket()
                    pk.set_header(PORT, 1)
                    pk.data = bytes([251, 252, RACER_UID])
                    before = ob['reopen_at'] is None
                    cf.send_packet(pk, expected_reply=(251, 252), timeout=T0)
                    ob['racer_in_session1'] = before and ob['reopen_at'] is None
                import threading
                racer_th = threading.Thread(target=racer)
                racer_th.start()
                go.set()
            cf.close_link()
            ob['tx_at_close'] = len(spec.tx)
            ob['after_close_calls'] = len(spec.tx_after_close)
            s.sleep(rnd.choice((0.0, T0 / 4.0, T0 / 2.0, T0 * 0.75, T0 * 1.25)))
            ob['reopen_at'] = s.now
            ob['tx_at_reopen'] = len(spec.tx)
            if not connect():
                return
            s.sleep(max(r['T'] for r in reqs) * 3 + 1.0)
        else:
            s.sleep(max(r['T'] for r in reqs) * 22 + 1.0)
        if kind == 'reopen' and racer_th is not None:
            racer_th.join()
        ob['t_end'] = s.now
        if bystander:
            ob['bystander_tx'] = [t[0] for t in spec2.tx if (t[2] >> 4) & 0xF == PORT and t[3] and t[3][-1] == BYSTANDER_UID]
            ob['bystander_end'] = s.now
            cf2.close_link()
        ob['timers'] = [(t.interval, t.created_at, t.fired_at, t.cancelled_at) for t in getattr(s, 'timers', [])]
        ob['patterns_left'] = len(cf._answer_patterns)
        ob['tx_end'] = len(spec.tx)
        cf.close_link()
        s.sleep(max(r['T'] for r in reqs) * 2 + 0.5)
        ob['tx_final'] = len(spec.tx)
        ob['after_close_final'] = list(spec.tx_after_close)

    _, abort, s = harness.sched_case(fn, seed=desc['seed'], policy=desc['sched'], line_p=harness.line_p_for(desc['seed'], 6, 0.15), horizon=5000.0, max_steps=12_000_000,
                                     line_focus=('_check_for_answers', '_cancel_pending_answers', '_no_answer_do_retry'), line_focus_p=0.5)
    ctx.count('mon.statement_level_preemption_points', s.line_points)
    ctx.evals()
    rp = dict(desc)

    def V(mech, detail):
        ctx.violate(mech, detail, replay=rp)
    if abort is not None:
        V('retry:hang:%s' % type(abort).__name__, {'abort': str(abort), 'threads': abort.table})
        return
    for (name, exc, tb) in s.deaths:
        V('retry:thread-died:%s:%s' % (name.split('#')[0], exc.split('(')[0]), {'traceback': tb})
    if ob['problems']:
        V('retry:' + ob['problems'][0].replace(' ', '-'), {})
        return
    if bystander and 'bystander_tx' in ob:
        ctx.count('mon.cases_with_a_second_crazyflie_object_waiting_for_the_same_answer')
        T0 = reqs[0]['T']
        span = ob['bystander_end'] - ob['bystander_sent_at']
        n = len(ob['bystander_tx']) - 1
        if n < int(span / T0) - 1:
            V('retry:request-of-another-crazyflie-object-stopped-being-retried',
              {'T': T0, 'window': span, 'retransmissions': n, 'expected_at_least': int(span / T0) - 1,
               'offsets': [round(t - ob['bystander_sent_at'], 4) for t in ob['bystander_tx'][:8]]})
    # the library's own requests of the connection set-up go through the same mechanism: on this loss-free link every
    # one of them is answered at once, so none is transmitted a second time (the very first packet an object receives
    # is the answer to its first request)
    if needs:
        seen_tx = {}
        for t in spec.tx[:ob['tx0']]:
            if t[1] == ob['session1']:
                seen_tx.setdefault((t[2], t[3]), []).append(t[0])
        ctx.count('mon.set_up_requests_of_the_library_on_a_link_without_delivery_guarantee', len(seen_tx))
        again = {k: v for k, v in seen_tx.items() if len(v) > 1}
        if again:
            k0 = sorted(again)[0]
            V('retry:set-up-request-of-the-library-transmitted-again-although-answered',
              {'header': k0[0], 'data': k0[1].hex(), 'times': [round(x, 4) for x in again[k0]][:5], 'requests_repeated': len(again)})
    tx = spec.tx[ob['tx0']:]
    rx = spec.rx[ob['rx0']:]
    mine_tx = [t for t in tx if (t[2] >> 4) & 0xF == PORT]
    mine_rx = [r for r in rx if (r[2] >> 4) & 0xF == PORT and r[1] == ob['session1']]
    ctx.count('mon.requests', len(reqs))
    ctx.count('mon.timers_observed', len(ob.get('timers', [])))
    if shared:
        ctx.count('mon.shared_prefix_cases')
    if kind == 'reliable':
        ctx.count('mon.reliable_link_cases')
        extra = [t for t in mine_tx]
        per = {}
        for t in extra:
            per[t[3][-1]] = per.get(t[3][-1], 0) + 1
        if any(v != 1 for v in per.values()) or len(per) != len(reqs):
            V('retry:retransmission-on-a-link-that-guarantees-delivery', {'transmissions_per_request': per})
        port9_timers = [t for t in ob['timers'] if t[1] is not None and t[1] >= ob['t_base'] - EPS]
        if port9_timers:
            V('retry:timer-created-on-a-link-that-guarantees-delivery', {'timers': port9_timers[:4]})
        ctx.nontrivial((core.h64([(r['pattern'], r['T']) for r in reqs]), 'reliable'))
        return
    # ---- reference model: when is each request cancelled?
    close_at = ob['close_at'] if kind == 'reopen' else None
    cancel = {}
    pending = {}          # pattern key -> uid
    reqs = [r for r in reqs if r['uid'] in ob['sent_at']]      # (a chained request whose parent was never answered is never issued)
    ctx.count('mon.requests_issued_from_the_callback_of_the_previous_answer_with_the_same_expectation',
              sum(1 for r in reqs if r.get('chain_of') is not None))
    # Order of events: one clock for all threads, the scheduler's step count.  A request is registered somewhere between the
    # step at which send_packet() was called and the step at which it returned (st0, st1); a received packet is matched against
    # the pending requests between the two hooks around the library's all-packet callbacks (pre, post).  A packet that was
    # received but never dispatched (the link was closed first) answers nothing.
    rx_index = {id(x_): i_ for i_, x_ in enumerate(spec.rx)}
    evs = []
    for r in reqs:
        st = ob['send_steps'].get(r['uid'])
        if st is not None:
            evs.append((st[1] - 0.25, ob['sent_at'][r['uid']], 'send', r))
    for x in mine_rx:
        pp = ob['dispatch_steps'].get(rx_index.get(id(x)))
        if pp is not None and pp[0] is not None and pp[1] is not None:
            evs.append((pp[0], x[0], 'rx', x))
    evs.sort(key=lambda e: e[0])
    ambiguous = False
    for (_, t, k, x) in evs:
        if close_at is not None and t > close_at + EPS:
            break
        if k == 'send':
            pending[(x['chan'], tuple(x['pattern']))] = x['uid']
        else:
            data = tuple(x[3])
            chan = x[2] & 3
            pre, post = ob['dispatch_steps'][rx_index[id(x)]]

            def attribution(pend):
                b = None
                for (c, p), uid in pend.items():
                    if c == chan and p == data[:len(p)] and (b is None or len(p) >= len(b[1])):
                        b = ((c, p), p, uid)
                return b
            best = attribution(pending)
            # requests whose registration window overlaps the matching window of this packet: both orders are possible
            doubt = {(r_['chan'], tuple(r_['pattern'])): r_['uid'] for r_ in reqs
                     if r_['uid'] in ob['send_steps'] and r_['uid'] not in cancel and
                     not (ob['send_steps'][r_['uid']][1] <= pre or ob['send_steps'][r_['uid']][0] >= post)}
            if doubt:
                without = {k_: v_ for k_, v_ in pending.items() if k_ not in doubt}
                with_all = dict(without)
                with_all.update(doubt)
                a1, a2 = attribution(without), attribution(with_all)
                if (None if a1 is None else a1[2]) != (None if a2 is None else a2[2]):
                    ambiguous = True
            if best is not None:
                cancel[best[2]] = t
                del pending[best[0]]
                ctx.count('mon.cancelled_by_reply')
    # ---- per request: observed transmission times vs expected
    sig = []
    if ambiguous:
        ctx.count('mon.cases_not_judged_per_request_because_an_answer_arrived_in_the_instant_a_matching_request_was_sent')
    for r in ([] if ambiguous else reqs):
        uid, T, t0 = r['uid'], r['T'], ob['sent_at'][r['uid']]
        times = [t[0] for t in mine_tx if t[3][-1] == uid and t[1] == ob['session1']]
        stop = cancel.get(uid)
        limit = min(x for x in (stop, close_at, ob['t_end']) if x is not None)
        exp = []
        k = 1
        while t0 + k * T < limit - 1e-7:
            exp.append(t0 + k * T)
            k += 1
        tie = t0 + k * T if abs(t0 + k * T - limit) <= 1e-7 else None
        got_re = times[1:]
        ctx.count('mon.retransmissions_expected', len(exp))
        ctx.count('mon.retransmissions_observed', len(got_re))
        sig.append((uid, tuple(round(x - t0, 6) for x in times)))
        if not times or abs(times[0] - t0) > 1e-7:
            V('retry:request-not-transmitted-when-sent', {'uid': uid, 'times': times})
            continue
        if stop is None and close_at is None:
            ctx.count('mon.never_answered_windows')
            if len(got_re) < int((ob['t_end'] - t0) / T) - 1:
                V('retry:unanswered-request-not-retried-for-as-long-as-the-link-is-open',
                  {'uid': uid, 'T': T, 'retransmissions': len(got_re), 'window': ob['t_end'] - t0})
                continue
        # every expected instant present
        missing = [e for e in exp if not any(abs(e - g) <= 1e-6 for g in got_re)]
        extra = [g for g in got_re if not any(abs(e - g) <= 1e-6 for e in exp) and not (tie is not None and abs(g - tie) <= 1e-6)]
        if missing:
            V('retry:retransmission-missing-at-timeout-multiple',
              {'uid': uid, 'T': T, 'pattern': r['pattern'], 'missing_offsets': [round(m - t0, 6) for m in missing[:4]],
               'observed_offsets': [round(g - t0, 6) for g in got_re[:8]], 'answered_at_offset': None if stop is None else round(stop - t0, 6)})
        elif extra:
            late = [g for g in extra if stop is not None and g > stop + 1e-7]
            afterclose = [g for g in extra if close_at is not None and g > close_at + 1e-7]
            if late:
                V('retry:retransmitted-after-the-answer', {'uid': uid, 'T': T, 'pattern': r['pattern'],
                                                           'answered_at_offset': round(stop - t0, 6),
                                                           'late_offsets': [round(g - t0, 6) for g in late[:4]]})
            elif afterclose:
                V('retry:transmitted-after-close_link', {'uid': uid, 'offsets': [round(g - t0, 6) for g in afterclose[:4]]})
            else:
                V('retry:retransmission-at-unexpected-instant', {'uid': uid, 'T': T, 'extra_offsets': [round(g - t0, 6) for g in extra[:4]],
                                                                 'expected_offsets': [round(e - t0, 6) for e in exp[:6]]})
    # ---- closed link / later session
    if kind == 'reopen':
        ctx.count('mon.close_reopen_cases')
        s2 = [t for t in mine_tx if t[1] != ob['session1']]
        if 'racer_in_session1' in ob:
            ctx.count('mon.requests_sent_while_the_link_was_being_closed')
            if not ob['racer_in_session1']:
                s2 = [t for t in s2 if t[3][-1] != RACER_UID]      # sent after the reopen began: belongs to session 2
        if s2:
            V('retry:request-of-an-earlier-session-transmitted-in-a-later-session',
              {'packets': [(round(t[0] - ob['t_base'], 6), t[3].hex()) for t in s2[:4]],
               'close_offset': round(ob['close_at'] - ob['t_base'], 6), 'reopen_offset': round(ob['reopen_at'] - ob['t_base'], 6)})
        between = [t for t in spec.tx[ob['tx_at_close']:ob['tx_at_reopen']]]
        if between:
            V('retry:transmitted-while-the-link-was-closed', {'packets': [(t[0], hex(t[2]), t[3].hex()) for t in between[:4]]})
    # (send_packet calls that reach an already closed link are recorded separately by the link and are not
    # transmissions; a retry that was already past the link test when close_link started may still go out
    # before the link is actually closed - that is on an open link and allowed.)
    ctx.nontrivial((core.h64([(r['pattern'], r['T'], r['lose_tx'], r['lose_reply'], r['delay']) for r in reqs]), kind,
                    core.h64(sig)))
    ctx.sample({'kind': kind, 'requests': [{k: r[k] for k in ('pattern', 'T', 'at', 'lose_tx', 'lose_reply', 'delay')} for r in reqs][:4],
                'transmission_offsets': sig[:4], 'answered_at': {u: round(t - ob['t_base'], 6) for u, t in cancel.items()},
                'timers': len(ob.get('timers', [])), 'steps': s.steps})
