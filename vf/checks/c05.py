"""C05 - log blocks are created as configured and log data decodes to device values.

Real Crazyflie.log / LogConfig / SyncLogger under detsched against simcf.  Monitors: port-5 channel-1
packets at the device (decoded with the firmware rule), data_received_cb arguments, added/started
flags and callbacks at quiescent points, SyncLogger iteration in a consumer thread.
"""
import math
import random
import struct

from vf import core, gen, harness, simcf

PROPERTY = 'C05'
LEVEL = 'exploration'
RULE = ('case = device log table, a log configuration (0..26 variables over all 8 fetch types, default-typed and '
        'explicitly typed, optionally raw-memory variables, payload 20..30 bytes around the 26-byte limit, period 0..3000 '
        'ms), a history over add/start/stop/delete/reconnect/re-add with device error injection, N data packets with '
        'extreme encoded values, and a SyncLogger consumer. distinct_nontrivial = distinct (configuration hash, history, '
        'create/append wire hash) for accepted configurations.')
ASSUMPTIONS = ['firmware V2 block-creation layout: entries of (type:u8, id:u16); data packet = id, 24-bit timestamp, values',
               'for table variables the stored-type nibble may be the fetch type or the table type (the firmware ignores it)']
REQUIRED = ['mon.configs_judged_on_tables_taken_from_the_cache', 'mon.two_syncloggers_on_one_crazyflie', 'mon.deleted_configurations_started_again', 'mon.configs_added_again_after_the_log_table_indices_moved', 'mon.configs_with_a_float_period', 'mon.rejected_configs_used_anyway', 'mon.refused_configurations_started_again', 'mon.configs_accepted', 'mon.configs_rejected', 'mon.create_messages', 'mon.append_messages',
            'mon.data_packets_decoded', 'mon.flag_checks', 'mon.readd_checks', 'mon.synclogger_samples',
            'mon.rejected_then_readded_on_newer_firmware', 'mon.delivered_samples_rechecked_later',
            'mon.synclogger_first_sample_right_behind_start_ack',
            'mon.boundary_26', 'mon.device_errors_injected']
DESC_TIMEOUT = 900

TYPES = ['uint8_t', 'uint16_t', 'uint32_t', 'int8_t', 'int16_t', 'int32_t', 'float', 'FP16']
TID = {'uint8_t': 1, 'uint16_t': 2, 'uint32_t': 3, 'int8_t': 4, 'int16_t': 5, 'int32_t': 6, 'float': 7, 'FP16': 8}
SIZE = {1: 1, 2: 2, 3: 4, 4: 1, 5: 2, 6: 4, 7: 4, 8: 2}
FMT = {1: '<B', 2: '<H', 3: '<L', 4: '<b', 5: '<h', 6: '<i', 7: '<f', 8: '<e'}
KNOWN_RAWMEM = 'log:raw-memory-variable:create-raises-TypeError'


def cases(tier, seed):
    rnd = random.Random(seed * 31337 + 2)
    out = []
    n = 600 if tier == 'quick' else 8000
    for i in range(n):
        out.append({'seed': seed * 1000003 + i, 'target_payload': rnd.choice((0, 4, 12, 20, 24, 25, 26, 26, 26, 27, 28, 30)),
                    'period': rnd.choice((0, 9, 10, 11, 100, 100, 500, 500, 1000, 2540, 2549, 2550, 3000, rnd.randint(10, 2549), rnd.randint(0, 3000))),
                    'rawmem': i % 11 == 5, 'unknown_var': i % 13 == 7, 'hist': i % 4, 'proto': 10,
                    'sched': rnd.choice(('rtb', 'random', 'pct')), 'errinj': i % 7 == 3})
    return out


def _val(rnd, t):
    if t == 7:
        return rnd.choice((0.0, -0.0, 1.5, float('inf'), float('-inf'), float('nan'), 3.4028234663852886e38, 1e-45,
                           rnd.uniform(-1e6, 1e6)))
    if t == 8:
        return rnd.choice((0.0, -0.0, 65504.0, -65504.0, 6e-8, float('inf'), float('nan'), rnd.uniform(-100, 100)))
    lo, hi = {1: (0, 255), 2: (0, 65535), 3: (0, 2 ** 32 - 1), 4: (-128, 127), 5: (-32768, 32767),
              6: (-2 ** 31, 2 ** 31 - 1)}[t]
    return rnd.choice((lo, hi, 0, rnd.randint(lo, hi)))


def _same(a, b):
    if isinstance(b, float):
        if b != b:
            return isinstance(a, float) and a != a
        return isinstance(a, (int, float)) and a == b and (b != 0 or math.copysign(1, a) == math.copysign(1, b))
    return a == b and not isinstance(a, bool)


def build_config(rnd, dev, desc):
    """Returns list of variable specs: ('toc', name, fetch or None) / ('mem', name, fetch, stored, addr)."""
    toc = list(dev.log_toc)
    rnd.shuffle(toc)
    specs = []
    payload = 0
    target = desc['target_payload']
    for (g, n, t) in toc:
        if payload >= target or len(specs) >= 26:
            break
        if rnd.random() < 0.4:
            ft = None
            sz = SIZE[t]
        else:
            cands = [x for x in TYPES if SIZE[TID[x]] <= max(1, target - payload)] or ['uint8_t']
            ft = rnd.choice(cands)
            sz = SIZE[TID[ft]]
        if payload + sz > target and rnd.random() < 0.8:
            continue
        specs.append(('toc', '%s.%s' % (g, n), ft))
        payload += sz
    if desc['rawmem']:
        ft, st = rnd.choice(TYPES), rnd.choice(TYPES)
        specs.insert(rnd.randrange(len(specs) + 1), ('mem', 'raw%d' % rnd.randrange(100), ft, st, rnd.getrandbits(32)))
        payload += SIZE[TID[ft]]
    if desc['unknown_var']:
        specs.insert(rnd.randrange(len(specs) + 1), ('toc', 'nope.var', rnd.choice((None, 'float'))))
    return specs


def run(desc, ctx):
    harness.init()
    from vf import detsched as ds, simlink
    from cflib.crazyflie import Crazyflie
    from cflib.crazyflie.log import LogConfig
    from cflib.crazyflie.syncLogger import SyncLogger
    import threading
    rnd = random.Random(desc['seed'])
    prof = gen.profile(desc['seed'], 40, 1, proto=desc['proto'])
    # make sure small types are plentiful so that payloads around 26 bytes with many variables occur
    for i, e in enumerate(prof['log']):
        if i % 2 == 0:
            e[2] = rnd.choice((1, 4, 1, 2))
    dev = simcf.SimCF(prof)
    spec = simlink.LinkSpec(dev)
    if desc['hist'] == 1 and (desc['seed'] // 4) % 2 == 0:
        spec.latency = 0.0      # answers (and the first sample) are there the moment the request has gone out
    uri = 'sim://c05'
    simlink.SIMS[uri] = spec
    specs = build_config(rnd, dev, desc)
    # the library resolves default-typed variables in add_config and appends them after the explicitly typed ones
    specs = [sp for sp in specs if not (sp[0] == 'toc' and sp[2] is None)] + \
        [sp for sp in specs if sp[0] == 'toc' and sp[2] is None]
    period = desc['period']
    if desc['seed'] % 3 == 1:
        # periods are often computed (1000 / rate): a float of the same value, or a fractional one
        period = float(period) if desc['seed'] % 2 else period + 0.5
        ctx.count('mon.configs_with_a_float_period')

    def plan():
        toc_type = {'%s.%s' % (g, n): t for (g, n, t) in dev.log_toc}
        toc_id = {'%s.%s' % (g, n): i for i, (g, n, t) in enumerate(dev.log_toc)}
        fetch_ids = []
        for sp in specs:
            if sp[0] == 'toc':
                fetch_ids.append(TID[sp[2]] if sp[2] else toc_type.get(sp[1]))
            else:
                fetch_ids.append(TID[sp[2]])
        known = all(sp[0] != 'toc' or sp[1] in toc_type for sp in specs)
        payload = sum(SIZE[f] for f in fetch_ids if f is not None)
        ref_accept = known and 1 <= int(period / 10) <= 254 and payload <= 26
        return toc_type, toc_id, fetch_ids, known, payload, ref_accept
    toc_type, toc_id, fetch_ids, known, payload, ref_accept = plan()
    known0 = known
    if payload in (26, 27) and known:
        ctx.count('mon.boundary_26')
    ob = {'data': [], 'added_cb': [], 'started_cb': [], 'error_cb': [], 'notes': [], 'flagchecks': [], 'sync': None,
          'problems': [], 'accept_exc': None, 'create_exc': None, 'vars_after_add': [], 'tx_at_reject': None}

    # a fifth of the cases: the tables come from the cache (an earlier connection to this firmware stored them), so the
    # acceptance, the creation and the decoding are judged on tables the library did not download in this session
    cache_dir = None
    if desc['seed'] % 5 == 2:
        import tempfile
        cache_dir = tempfile.mkdtemp(prefix='vf_c05_')

    def fn(s):
        dev.now = lambda: s.now
        if cache_dir:
            import os as _os
            warm = Crazyflie(rw_cache=cache_dir)
            wdone = ds.Event()
            warm.connected.add_callback(lambda u: wdone.set())
            warm.open_link(uri)
            if not wdone.wait(300.0):
                ob['problems'].append('connect failed')
                return
            s.sleep(0.1)
            warm.close_link()
            s.sleep(0.3)
            del spec.tx[:]
            if _os.listdir(cache_dir):
                ob['cached'] = True
        cf = Crazyflie(rw_cache=cache_dir) if cache_dir else Crazyflie()
        done = ds.Event()
        cf.connected.add_callback(lambda u: done.set())
        cf.open_link(uri)
        if not done.wait(300.0):
            ob['problems'].append('connect failed')
            return
        s.sleep(0.2)

        def mkconf():
            lc = LogConfig('cfg', period)
            for sp in specs:
                if sp[0] == 'toc':
                    lc.add_variable(sp[1], sp[2])
                else:
                    lc.add_memory(sp[1], sp[2], sp[3], sp[4])
            # keep the delivered object itself next to a copy taken at delivery time
            lc.data_received_cb.add_callback(lambda ts, data, conf: ob['data'].append((ts, dict(data), conf, data)))
            lc.added_cb.add_callback(lambda *a: ob['added_cb'].append(a))
            lc.started_cb.add_callback(lambda *a: ob['started_cb'].append(a))
            lc.error_cb.add_callback(lambda *a: ob['error_cb'].append(a))
            return lc
        lc = mkconf()
        ob['lc'] = lc
        t0 = len(spec.tx)
        ob['ev0'] = len(dev.events)
        try:
            cf.log.add_config(lc)
        except Exception as e:  # noqa
            ob['accept_exc'] = type(e).__name__
        ob['tx_at_reject'] = len([t for t in spec.tx[t0:] if (t[2] >> 4) == 5])
        ob['vars_after_add'].append([(v.name, v.fetch_as, v.type) for v in lc.variables])
        ob['first_id'] = lc.id
        if ob['accept_exc'] is not None and desc['unknown_var'] and not known0 and desc.get('upgrade', True):
            # the configuration was refused because this firmware lacks a variable; the application connects
            # to a firmware that has it and adds the same configuration object again
            cf.close_link()
            s.sleep(0.3)
            dev.log_toc.append(('nope', 'var', random.Random(desc['seed'] ^ 77).choice((1, 2, 3, 7))))
            dev.log_crc = (dev.log_crc + 1) & 0xFFFFFFFF
            done.clear()
            cf.open_link(uri)
            if not done.wait(300.0):
                ob['problems'].append('reconnect failed')
                return
            s.sleep(0.2)
            ob['upgraded'] = ob['accept_exc']
            ob['accept_exc'] = None
            t0 = len(spec.tx)
            ob['ev0'] = len(dev.events)
            try:
                cf.log.add_config(lc)
            except Exception as e:  # noqa
                ob['accept_exc'] = type(e).__name__
            ob['tx_at_reject'] = len([t for t in spec.tx[t0:] if (t[2] >> 4) == 5])
            ob['vars_after_add'] = [[(v.name, v.fetch_as, v.type) for v in lc.variables]]
            ob['first_id'] = lc.id
        if ob['accept_exc'] is not None:
            # the application goes on with the configuration it was refused (it did not check, or it cleans up): nothing
            # of it may reach the Crazyflie
            t1 = len(spec.tx)
            for op_ in ('start', 'stop', 'delete'):
                try:
                    getattr(lc, op_)()
                except Exception:  # noqa
                    pass
                s.sleep(0.02)
            ob['tx_after_reject'] = [(t[2], t[3].hex()) for t in spec.tx[t1:] if (t[2] >> 4) == 5]
            cf.close_link()
            return
        # ---- error injection on the device
        if desc['errinj']:
            inj = {'n': 0}
            which = rnd.choice(('create', 'start'))
            code = rnd.choice((simcf.ENOMEM, simcf.ENOENT, simcf.E2BIG)) if which == 'create' else simcf.ENOENT

            def log_err(cmd, bid, seq):
                if inj['n'] == 0 and ((which == 'create' and cmd in (0, 6)) or (which == 'start' and cmd == 3)):
                    inj['n'] += 1
                    ob['notes'].append(('injected', which, code))
                    return code
                return None
            dev.hooks['log_err'] = log_err
        # ---- create + start
        try:
            lc.start()
        except Exception as e:  # noqa
            ob['create_exc'] = (type(e).__name__, str(e)[:100])
            cf.close_link()
            return
        s.sleep(0.1)

        def flags(tag):
            blk = dev.blocks.get(lc.id)
            ob['flagchecks'].append((tag, lc.added, lc.started, blk is not None, bool(blk and blk.started)))
        flags('after-start')
        if desc['errinj'] and any(n[0] == 'injected' and n[1] == 'create' for n in ob['notes']) and not lc.added and (desc['seed'] // 2) % 2 == 0:
            # the application starts the refused configuration again (the device has room now)
            try:
                lc.start()
            except Exception as e:  # noqa
                ob['second_start_exc'] = repr(e)[:120]
            s.sleep(0.1)
            flags('after-second-start')
        blk = dev.blocks.get(lc.id)
        # ---- data packets (device encodes with what it parsed from the create/append messages)
        if blk is not None and blk.started:
            consumer_out = []
            if desc['hist'] == 1:
                # SyncLogger on a second configuration with the same variables
                lc2 = mkconf()
                sl = SyncLogger(cf, lc2)
                ob['sync'] = {'yielded': consumer_out, 'ended': False, 'sent': []}
                if (desc['seed'] // 4) % 2 == 0:
                    # the device sends the first sample of the new block right behind the START acknowledgement
                    def first_sample(bid):
                        if bid == lc.id or bid not in dev.blocks or ob['sync']['sent']:
                            return None
                        b2 = dev.blocks[bid]
                        vals0 = [_val(rnd, op[0]) for op in b2.ops]
                        ob['sync']['sent'].append((0x00ABCD, vals0, [op[0] for op in b2.ops]))
                        ob['sync']['immediate_first_sample'] = True
                        return (vals0, 0x00ABCD)
                    dev.hooks['log_first_sample'] = first_sample

                def consume():
                    with sl as logger:
                        for entry in logger:
                            consumer_out.append((entry[0], dict(entry[1])))
                    ob['sync']['ended'] = True
                th = threading.Thread(target=consume)
                th.start()
                s.sleep(0.1)
                blk2 = dev.blocks.get(lc2.id)
                thb = None
                if (desc['seed'] // 8) % 2 == 0:
                    # a second SyncLogger on the same Crazyflie (another consumer of the application): it ends at the disconnect too
                    lc3 = mkconf()
                    slb = SyncLogger(cf, lc3)

                    def consume_b():
                        with slb as logger_b:
                            for entry in logger_b:
                                ob['sync'].setdefault('yielded_b', []).append(entry[0])
                        ob['sync']['ended_b'] = True
                    ob['sync']['second'] = True
                    thb = threading.Thread(target=consume_b)
                    thb.start()
                    s.sleep(0.1)
                ob['thb'] = thb
            for i in range(rnd.randint(1, 6)):
                vals = [_val(rnd, op[0]) for op in blk.ops]
                ts = rnd.choice((0, 1, 0xFFFFFF, rnd.getrandbits(24)))
                h, d = dev.log_data_packet(lc.id, vals, ts)
                ob.setdefault('sent', []).append((ts, vals, [op[0] for op in blk.ops]))
                cf.link.inject(h, d, 0.0)
                s.sleep(0.01)
                if desc['hist'] == 1 and blk2 is not None and blk2.started:
                    # a burst: the consumer may lag behind, several samples wait in the SyncLogger queue
                    for b in range(1 if i % 2 else 3):
                        vals2 = [_val(rnd, op[0]) for op in blk2.ops]
                        ts2 = (ts ^ 1) if b == 0 else rnd.getrandbits(24)
                        h, d = dev.log_data_packet(lc2.id, vals2, ts2)
                        ob['sync']['sent'].append((ts2, vals2, [op[0] for op in blk2.ops]))
                        cf.link.inject(h, d, 0.0)
                    s.sleep(0.01)
        # ---- history tail
        if desc['hist'] == 2:
            lc.stop()
            s.sleep(0.05)
            flags('after-stop')
            lc.start()
            s.sleep(0.05)
            flags('after-restart')
            lc.delete()
            s.sleep(0.05)
            flags('after-delete')
            if (desc['seed'] // 4) % 2 == 1 and not desc['errinj']:
                # the deleted configuration is started again (no add_config in between: start() creates the block again)
                lc.start()
                s.sleep(0.1)
                ob['restarted_after_delete'] = True
                flags('after-start-of-the-deleted-configuration')
        if desc['hist'] == 3:
            # reconnect and re-add the same configuration object
            before = [(v.name, v.fetch_as, v.type) for v in lc.variables]
            cf.close_link()
            s.sleep(0.5)
            if (desc['seed'] // 4) % 2 == 0 and not desc['errinj'] and not ob.get('upgraded'):
                # the firmware was updated in between: a new variable in front of the log table moves every index
                dev.log_toc.insert(0, ('aanew', 'first', 1))
                dev.log_crc = (dev.log_crc + 1) & 0xFFFFFFFF
                ob['shifted'] = True
            done.clear()
            cf.open_link(uri)
            if not done.wait(300.0):
                ob['problems'].append('reconnect failed')
                return
            s.sleep(0.2)
            ob['readd_ev0'] = len(dev.events)
            try:
                cf.log.add_config(lc)
                flags('after-reconnect-and-re-add')
                if ob.get('shifted'):
                    lc.start()           # (the block is created on the device when the configuration is started)
                    s.sleep(0.1)
                    ob['readd_id'] = lc.id
                    flags('after-start-of-the-re-added-configuration')
            except Exception as e:  # noqa
                ob['notes'].append(('re-add raised', type(e).__name__))
            ob['readd'] = (before, [(v.name, v.fetch_as, v.type) for v in lc.variables])
        cf.close_link()
        if desc['hist'] == 1 and ob['sync'] is not None:
            s.horizon = s.now + 100.0
            th.join()
            if ob.get('thb') is not None:
                ob['thb'].join()

    try:
        _, abort, s = harness.sched_case(fn, seed=desc['seed'], policy=desc['sched'], line_p=harness.line_p_for(desc['seed'], 8, 0.05), horizon=3000.0, max_steps=12_000_000)
    finally:
        if cache_dir:
            import shutil
            shutil.rmtree(cache_dir, ignore_errors=True)
    ctx.count('mon.statement_level_preemption_points', s.line_points)
    if ob.get('cached'):
        ctx.count('mon.configs_judged_on_tables_taken_from_the_cache')
    ctx.evals()
    rp = dict(desc)

    def V(mech, detail):
        ctx.violate(mech, detail, replay=rp)
    if abort is not None:
        V('log:hang:%s' % type(abort).__name__, {'abort': str(abort), 'threads': abort.table})
        return
    for (name, exc, tb) in s.deaths:
        V('log:thread-died:%s:%s' % (name.split('#')[0], exc.split('(')[0]), {'traceback': tb})
    if ob['problems']:
        V('log:' + ob['problems'][0].replace(' ', '-'), {})
        return
    shown = [(sp[0], sp[1], sp[2]) for sp in specs]
    if ob.get('upgraded'):
        ctx.count('mon.rejected_then_readded_on_newer_firmware')
        toc_type, toc_id, fetch_ids, known, payload, ref_accept = plan()
    # ---- acceptance
    if ref_accept != (ob['accept_exc'] is None):
        V('log:config-%s' % ('wrongly-rejected' if ref_accept else 'wrongly-accepted'),
          {'specs': shown, 'period_ms': period, 'payload': payload, 'exc': ob['accept_exc']})
        return
    if not ref_accept:
        ctx.count('mon.configs_rejected')
        if ob['tx_at_reject']:
            V('log:rejected-config-transmitted', {'packets': ob['tx_at_reject']})
        if 'tx_after_reject' in ob:
            ctx.count('mon.rejected_configs_used_anyway')
            if ob['tx_after_reject']:
                V('log:rejected-config-transmitted:when-started-stopped-or-deleted-afterwards',
                  {'packets': ob['tx_after_reject'][:4], 'rejected_with': ob['accept_exc']})
        return
    ctx.count('mon.configs_accepted')
    has_mem = any(sp[0] == 'mem' for sp in specs)
    if ob['create_exc'] is not None:
        if has_mem and ob['create_exc'][0] == 'TypeError':
            V(KNOWN_RAWMEM, {'specs': shown, 'exc': ob['create_exc']})
        else:
            V('log:create-raised:%s' % ob['create_exc'][0], {'specs': shown, 'exc': ob['create_exc']})
        return
    # ---- block-creation messages
    lc = ob['lc']
    evs = [e for e in dev.events[ob['ev0']:] if e[0] in ('log_create', 'log_append') and e[1] == ob['first_id']]
    first_create = None
    entries = []
    order_ok = True
    for i, e in enumerate(evs):
        raw = e[3]
        if len(raw) > 30:
            V('log:create-message-larger-than-30-bytes', {'len': len(raw)})
        if e[0] == 'log_create':
            ctx.count('mon.create_messages')
            if raw[0] != 6:
                V('log:create-not-using-current-protocol-command', {'cmd': raw[0]})
            if first_create is None:
                first_create = i
            elif not (desc['errinj'] or desc['hist'] in (2, 3)):
                order_ok = False
        else:
            ctx.count('mon.append_messages')
            if raw[0] != 7:
                V('log:append-not-using-current-protocol-command', {'cmd': raw[0]})
        if first_create is not None and i >= first_create and (e[0] == 'log_append' or i == first_create):
            body = raw[2:]
            # firmware rule: n = (size - 2) // 3 entries, a trailing partial entry is ignored
            for j in range(len(body) // 3):
                entries.append((body[3 * j], struct.unpack('<H', body[3 * j + 1:3 * j + 3])[0]))
    if not evs or first_create != 0 or not order_ok:
        V('log:create-append-sequence-malformed', {'events': [(e[0], e[2]) for e in evs]})
    else:
        # compare only the first creation burst (create + following appends)
        nvars = len(specs)
        burst = entries[:nvars]
        want = []
        for sp, f in zip(specs, fetch_ids):
            want.append((f, toc_id[sp[1]], toc_type[sp[1]]))
        okm = len(entries) >= nvars and (len(entries) == nvars or desc['hist'] in (2, 3) or desc['errinj'])
        for (tb, vid), (f, idx, st) in zip(burst, want):
            if (tb & 0x0F) != f or vid != idx or (tb >> 4) not in (f, st):
                okm = False
        if not okm:
            V('log:create-messages-do-not-enumerate-the-variables',
              {'specs': shown, 'entries_on_wire': entries[:30], 'wanted': want[:30]})
    if ob.get('shifted') and 'readd_id' in ob:
        # the same configuration object added again on a firmware whose table has other indices
        ctx.count('mon.configs_added_again_after_the_log_table_indices_moved')
        toc_type2, toc_id2, fetch_ids2, _k2, _p2, _r2 = plan()
        ent2 = []
        for e in dev.events[ob['readd_ev0']:]:
            if e[0] in ('log_create', 'log_append') and e[1] == ob['readd_id']:
                body = e[3][2:]
                for j in range(len(body) // 3):
                    ent2.append((body[3 * j] & 0x0F, struct.unpack('<H', body[3 * j + 1:3 * j + 3])[0]))
        want2 = [(f, toc_id2[sp[1]]) for sp, f in zip(specs, fetch_ids2)]
        if ent2[:len(want2)] != want2:
            V('log:create-messages-do-not-enumerate-the-variables:added-again-after-the-table-changed',
              {'specs': shown, 'entries_on_wire': ent2[:30], 'wanted': want2[:30]})
    # ---- data decoding
    sent = ob.get('sent', [])
    got = [d for d in ob['data'] if d[2] is lc]
    for d in ob['data']:
        ctx.count('mon.delivered_samples_rechecked_later')
        if d[3] != d[1]:
            V('log:delivered-sample-changed-after-delivery', {'at_delivery': {k: repr(v) for k, v in d[1].items()},
                                                             'later': {k: repr(v) for k, v in d[3].items()}})
            break
    if len(got) != len(sent):
        V('log:data-callback-count-differs', {'sent': len(sent), 'got': len(got)})
    else:
        names = [sp[1] for sp in specs]
        for (ts, vals, types), (gts, gdata, _, _ref) in zip(sent, got):
            ctx.count('mon.data_packets_decoded')
            ok = gts == ts and set(gdata) == set(names)
            if ok:
                for nm, v, t in zip(names, vals, types):
                    ref = struct.unpack(FMT[t], struct.pack(FMT[t], v))[0]
                    if not _same(gdata[nm], ref):
                        ok = False
            if not ok:
                V('log:data-decoded-wrongly', {'timestamp_sent': ts, 'timestamp_got': gts, 'values_sent': vals,
                                               'types': types, 'decoded': {k: repr(v) for k, v in gdata.items()}})
                break
    # ---- flags follow acknowledgements
    for (tag, added, started, dev_has, dev_started) in ob['flagchecks']:
        ctx.count('mon.flag_checks')
        inj = [n for n in ob['notes'] if n[0] == 'injected']
        if inj:
            ctx.count('mon.device_errors_injected')
        if tag == 'after-start':
            if inj and inj[0][1] == 'create':
                exp = (False, False)
            elif inj and inj[0][1] == 'start':
                exp = (True, False)
            else:
                exp = (True, True)
        elif tag == 'after-second-start':
            ctx.count('mon.refused_configurations_started_again')
            exp = (True, True)
            if not (dev_has and dev_started) or ob.get('second_start_exc'):
                V('log:configuration-started-again-after-a-refusal-not-created-and-started-on-the-device',
                  {'device_has_block': dev_has, 'device_started': dev_started, 'raised': ob.get('second_start_exc')})
        elif tag == 'after-reconnect-and-re-add':
            # the device dropped every block when the new connection reset its log subsystem (and acknowledged that)
            exp = (False, False)
        elif tag in ('after-start-of-the-re-added-configuration', 'after-start-of-the-deleted-configuration'):
            exp = (True, True)
            if tag == 'after-start-of-the-deleted-configuration':
                ctx.count('mon.deleted_configurations_started_again')
            if not (dev_has and dev_started):
                V('log:re-added-configuration-started-but-not-created-and-started-on-the-device',
                  {'device_has_block': dev_has, 'device_started': dev_started, 'added': added, 'started': started})
        elif tag == 'after-stop':
            exp = (True, False) if not inj or inj[0][1] == 'start' else None
        elif tag == 'after-restart':
            exp = (True, True) if not inj else None
        else:
            exp = (False, False) if not inj else None
        if exp is not None and (added, started) != exp:
            V('log:flags-do-not-follow-acknowledgements:%s' % tag, {'added': added, 'started': started, 'expected': exp,
                                                                   'device_has_block': dev_has, 'device_started': dev_started})
    if not any(n[0] == 'injected' for n in ob['notes']) and ob['flagchecks']:
        a_tr = [a[1] for a in ob['added_cb'] if len(a) == 2 and a[0] is lc]
        s_tr = [a[1] for a in ob['started_cb'] if len(a) == 2 and a[0] is lc]
        # history 3: the reset of the log subsystem at the second connection is acknowledged by the device - the block is
        # gone (False); when the configuration is started again it is created and started again (True)
        again = [True] if 'readd_id' in ob else []
        again2 = [True] if ob.get('restarted_after_delete') else []
        exp_a = {0: [True], 1: [True], 2: [True, False] + again2, 3: [True, False] + again}[desc['hist']]
        exp_s = {0: [True], 1: [True], 2: [True, False, True, False] + again2, 3: [True, False] + again}[desc['hist']]
        if a_tr != exp_a or s_tr != exp_s:
            V('log:added-started-callbacks-do-not-follow-acknowledgements',
              {'added_cb': a_tr, 'started_cb': s_tr, 'expected': [exp_a, exp_s]})
    # ---- re-add leaves the variable list unchanged
    if 'readd' in ob:
        ctx.count('mon.readd_checks')
        before, after = ob['readd']
        if before != after:
            V('log:re-adding-config-changed-its-variables', {'before': len(before), 'after': len(after),
                                                             'default_typed': sum(1 for sp in specs if sp[0] == 'toc' and sp[2] is None)})
    first = ob['vars_after_add'][0] if ob['vars_after_add'] else []
    if len(first) != len(specs):
        V('log:variable-count-after-add_config-differs', {'got': len(first), 'want': len(specs)})
    # ---- SyncLogger
    if ob['sync'] is not None:
        y, sent2 = ob['sync']['yielded'], ob['sync']['sent']
        ctx.count('mon.synclogger_samples', len(y))
        if ob['sync'].get('immediate_first_sample'):
            ctx.count('mon.synclogger_first_sample_right_behind_start_ack')
        if not ob['sync']['ended']:
            V('log:synclogger-iteration-did-not-end-at-disconnect', {})
        if ob['sync'].get('second'):
            ctx.count('mon.two_syncloggers_on_one_crazyflie')
            if not ob['sync'].get('ended_b') or ob['sync'].get('yielded_b'):
                V('log:second-synclogger-did-not-end-at-disconnect-or-yielded-samples-it-was-never-sent',
                  {'ended': ob['sync'].get('ended_b'), 'yielded': len(ob['sync'].get('yielded_b', []))})
        oky = len(y) == len(sent2)
        if oky:
            names = [sp[1] for sp in specs]
            for (ts, vals, types), (gts, gdata) in zip(sent2, y):
                if gts != ts or any(not _same(gdata.get(nm), struct.unpack(FMT[t], struct.pack(FMT[t], v))[0])
                                    for nm, v, t in zip(names, vals, types)):
                    oky = False
        if not oky:
            V('log:synclogger-did-not-yield-each-sample-once-in-order',
              {'sent': len(sent2), 'yielded': len(y), 'sent_timestamps': [x[0] for x in sent2][:16],
               'yielded_timestamps': [x[0] for x in y][:16], 'first_sample_right_behind_start_ack': bool(ob['sync'].get('immediate_first_sample'))})
    ctx.nontrivial((core.h64(shown), desc['hist'], core.h64([e[3].hex() for e in evs])))
    ctx.sample({'variables': shown[:8], 'n_variables': len(specs), 'payload_bytes': payload, 'period_ms': period,
                'history': desc['hist'], 'create_append_messages': [(e[0], len(e[3])) for e in evs],
                'data_packets': len(sent), 'steps': s.steps})
