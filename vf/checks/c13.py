"""C13 - numeric wire codecs are exact or within their stated resolution.

Monitors (all on return values of the real functions, references computed independently):
  fp16     exhaustive 65 536 patterns (unsigned and as signed int16, the form the LH stream hands in)
           against numpy.float16; icontract postcondition on the alias bound inside
           cflib.crazyflie.localization so internal calls are watched too.
  quat     compress/decompress: 32-bit range, unit norm, every component within two quantisation
           steps of +-normalised input.
  traj     CompressedStart / CompressedSegment fixed point: < 1 unit error, overflow raises.
  led      RGB565 packing of LEDDriverMemory / LEDTimingsDriverMemory: monotone, endpoints, field isolation.
  loc      Localization._incoming: range reports and LH angle stream decode to the encoded values.
"""
import math
import random
import struct

from vf import core

PROPERTY = 'C13'
LEVEL = 'exploration'
RULE = ('fp16: every 16-bit pattern once unsigned and once as int16 (exhaustive); quaternions: 5-degree grid '
        'over S3, all largest-component ties, negated and scaled (1e-6..1e6) and seeded-random inputs; '
        'trajectory fixed point: boundary values around every int16 limit plus random; LED: all 256 levels x '
        'intensities 0..100 per channel; localization packets: 0..5 anchors / all finite half offsets classes. '
        'distinct_nontrivial counts distinct inputs (bit pattern, quantised quaternion, value, level/intensity '
        'pair, packet bytes) that reached a deciding monitor.')
ASSUMPTIONS = ['numpy.float16 conversion is IEEE-754 binary16', 'struct module packs float32 correctly',
               'LED ring memory layout: byte0=RRRRRGGG byte1=GGGBBBBB (firmware ledring12 reader)']
REQUIRED = ['mon.led_timing_sequences_with_a_black_step_after_another_step', 'mon.led_rings_with_one_colour_at_several_intensities', 'mon.traj_elements_serialised_again', 'mon.fp16', 'mon.quat', 'mon.traj', 'mon.led', 'mon.led_timing', 'mon.range', 'mon.lh_angle',
            'mon.fp16_contract', 'mon.traj_segment_boundary_values']
EXHAUSTIVE = {'quick': False, 'thorough': False}
EXHAUSTIVE_NOTE = 'the fp16 part (131 072 evaluations) is exhaustive in both tiers; the other parts are sampled'


def cases(tier, seed):
    d = []
    step = 4096
    for lo in range(0, 65536, step):
        d.append({'part': 'fp16', 'lo': lo, 'hi': lo + step})
    nq = 16 if tier == 'quick' else 64
    for k in range(nq):
        d.append({'part': 'quat', 'seed': seed * 1000 + k, 'n': 2500 if tier == 'quick' else 20000, 'grid': k, 'ngrid': nq})
    for k in range(4 if tier == 'quick' else 16):
        d.append({'part': 'traj', 'seed': seed * 1000 + k, 'n': 3000 if tier == 'quick' else 20000})
    for ch in range(3):
        d.append({'part': 'led', 'ch': ch, 'istep': 1})
    d.append({'part': 'led_timing'})
    for k in range(4 if tier == 'quick' else 16):
        d.append({'part': 'loc', 'seed': seed * 1000 + k, 'n': 1500 if tier == 'quick' else 15000})
    return d


# ----------------------------------------------------------------------------------------------
def _f16_ref(bits):
    import numpy as np
    return float(np.array([bits & 0xFFFF], dtype=np.uint16).view(np.float16)[0])


def _same_float(got, want):
    """Value equality incl. sign of zero, inf, NaN; ints are accepted if numerically identical."""
    if isinstance(got, bool) or not isinstance(got, (int, float)):
        try:
            got = float(got)
        except Exception:
            return False
    if want != want:
        return isinstance(got, float) and got != got
    try:
        g = float(got)
    except OverflowError:
        return False
    if g != want:
        return False
    if want == 0:
        return math.copysign(1, g) == math.copysign(1, want)
    return True


def _fp16_class(bits):
    e = (bits >> 10) & 0x1F
    f = bits & 0x3FF
    if e == 0:
        return 'zero' if f == 0 else 'subnormal'
    if e == 31:
        return 'inf' if f == 0 else 'nan'
    return 'normal'


def run_fp16(desc, ctx):
    from cflib.utils.encoding import fp16_to_float
    for bits in range(desc['lo'], desc['hi']):
        want = _f16_ref(bits)
        for form, arg in (('u16', bits), ('i16', bits - 65536 if bits >= 32768 else bits)):
            got = fp16_to_float(arg)
            ctx.evals()
            ctx.count('mon.fp16')
            ctx.nontrivial(('fp16', form, bits))
            if not _same_float(got, want):
                ctx.violate('fp16:%s:wrong-value' % _fp16_class(bits),
                            {'bits': bits, 'form': form, 'got': repr(got), 'want': repr(want)},
                            replay={'part': 'fp16', 'lo': bits, 'hi': bits + 1})
    if desc['lo'] == 0:
        ctx.sample({'fp16 bits': 0x3C00, 'decoded': repr(fp16_to_float(0x3C00)), 'reference': _f16_ref(0x3C00)})


# ----------------------------------------------------------------------------------------------
STEP = (1.0 / math.sqrt(2)) / 511


def _quat_inputs(desc):
    rnd = random.Random(desc['seed'])
    out = []
    # grid slice over S3 in hyperspherical angles, 5 degree steps
    k, nk = desc['grid'], desc['ngrid']
    angs = [math.radians(a) for a in range(0, 181, 5)]
    idx = 0
    for a in angs:
        for b in angs:
            idx += 1
            if idx % nk != k:
                continue
            for c in [math.radians(x) for x in range(0, 360, 15)]:
                out.append((math.cos(a), math.sin(a) * math.cos(b), math.sin(a) * math.sin(b) * math.cos(c),
                            math.sin(a) * math.sin(b) * math.sin(c)))
    # ties for the largest component
    for m in range(1, 16):
        sel = [i for i in range(4) if m >> i & 1]
        for signs in range(1 << len(sel)):
            q = [0.0] * 4
            for j, i in enumerate(sel):
                q[i] = (-1.0 if signs >> j & 1 else 1.0) / math.sqrt(len(sel))
            out.append(tuple(q))
            rest = [i for i in range(4) if i not in sel]
            if rest:
                q2 = list(q)
                q2[rnd.choice(rest)] = rnd.uniform(-1, 1) / math.sqrt(len(sel))
                out.append(tuple(q2))
    for _ in range(desc['n']):
        q = [rnd.gauss(0, 1) for _ in range(4)]
        mode = rnd.random()
        if mode < 0.15:
            q[rnd.randrange(4)] = 0.0
        elif mode < 0.25:
            i, j = rnd.sample(range(4), 2)
            q[j] = q[i] * rnd.choice((1, -1))
        elif mode < 0.3:
            q = [rnd.choice((1, -1)) * abs(q[0])] * 4
        scale = 10 ** rnd.uniform(-6, 6) if rnd.random() < 0.5 else 1.0
        q = [x * scale for x in q]
        if all(x == 0 for x in q):
            continue
        out.append(tuple(q))
    return out


def run_quat(desc, ctx):
    import numpy as np
    from cflib.utils.encoding import compress_quaternion, decompress_quaternion
    worst = 0.0
    ins = _quat_inputs(desc)
    for q in ins:
        n = math.sqrt(sum(x * x for x in q))
        if not (1e-6 <= n <= 1e6 * 2.01):
            continue
        for sign in (1, -1):
            qq = [sign * x for x in q]
            ctx.evals()
            ctx.count('mon.quat')
            comp = compress_quaternion(qq)
            rp = {'part': 'quat1', 'q': qq}
            if not (isinstance(comp, (int, np.integer)) and 0 <= int(comp) < (1 << 32)):
                ctx.violate('quat:compressed-not-32bit', {'q': qq, 'comp': repr(comp)}, replay=rp)
                continue
            comp = int(comp)
            ctx.nontrivial(('quat', comp, sign))
            d = decompress_quaternion(comp)
            d = [float(x) for x in d]
            if not all(math.isfinite(x) for x in d):
                ctx.violate('quat:decompress-not-finite', {'q': qq, 'comp': comp, 'out': d}, replay=rp)
                continue
            nd = math.sqrt(sum(x * x for x in d))
            if abs(nd - 1) > 1e-9:
                ctx.violate('quat:decompress-not-unit', {'q': qq, 'comp': comp, 'norm': nd}, replay=rp)
            qh = [x / n for x in qq]
            e1 = max(abs(a - b) for a, b in zip(d, qh))
            e2 = max(abs(a + b) for a, b in zip(d, qh))
            err = min(e1, e2)
            worst = max(worst, err)
            if err > 2 * STEP:
                ctx.violate('quat:component-error-above-two-steps',
                            {'q': qq, 'comp': comp, 'out': d, 'err': err, 'bound': 2 * STEP}, replay=rp)
    ctx.count('quat.worst_err_nano', 0)
    ctx.sample({'quaternion': list(ins[0]), 'compressed': int(compress_quaternion(ins[0])),
                'worst_component_error_in_batch': worst, 'bound': 2 * STEP})


def run_quat1(desc, ctx):
    run_quat_inputs = [tuple(desc['q'])]
    import cflib.utils.encoding as enc
    q = run_quat_inputs[0]
    n = math.sqrt(sum(x * x for x in q))
    comp = int(enc.compress_quaternion(list(q)))
    d = [float(x) for x in enc.decompress_quaternion(comp)]
    qh = [x / n for x in q]
    err = min(max(abs(a - b) for a, b in zip(d, qh)), max(abs(a + b) for a, b in zip(d, qh)))
    ctx.evals()
    if not (0 <= comp < 1 << 32) or not all(math.isfinite(x) for x in d) or err > 2 * STEP:
        ctx.violate('quat:replayed', {'q': q, 'comp': comp, 'out': d, 'err': err})


# ----------------------------------------------------------------------------------------------
def _trunc_exact(x, scale):
    """Truncation toward zero of the exact real product x*scale (x a float)."""
    from fractions import Fraction
    p = Fraction(x) * scale
    return int(p), p


def _traj_values(rnd, n):
    vals = []
    for base in (32.767, 32.768, 32.769, -32.767, -32.768, -32.769, 0.0, 0.001, -0.001, 0.0005, 65.535, 65.536,
                 -65.536, 1e-9, 40.0, -40.0, 32.7675, -32.7685):
        for k in range(-3, 4):
            vals.append(base + k * 1e-4)
            vals.append(math.nextafter(base, math.inf) if k == 1 else math.nextafter(base, -math.inf))
    for _ in range(n):
        r = rnd.random()
        if r < 0.6:
            vals.append(rnd.uniform(-33, 33))
        elif r < 0.9:
            vals.append(rnd.uniform(-40, 40))
        else:
            vals.append(rnd.uniform(-200, 200))
    return vals


def run_traj(desc, ctx):
    from fractions import Fraction
    from cflib.crazyflie.mem.trajectory_memory import CompressedSegment, CompressedStart
    rnd = random.Random(desc['seed'])
    vals = _traj_values(rnd, desc['n'])
    yaws = [math.radians(v * 100) for v in vals]   # degrees = v*100 -> tenths = v*1000: same int16 boundaries
    deg10 = Fraction(1800) / Fraction(math.pi)     # reference uses exact rational times float pi

    def expect(v, kind):
        if kind == 's':
            t, p = _trunc_exact(v, 1000)
        else:
            p = Fraction(math.degrees(v)) * 10
            t = int(p)
        return t, float(p)

    def check_one(kind, v, got, raised):
        ctx.evals()
        ctx.count('mon.traj')
        ctx.nontrivial(('traj', kind, v))
        t, p = expect(v, kind)
        rp = {'part': 'traj1', 'kind': kind, 'v': v}
        fits = -32768 <= t <= 32767
        # values within 1e-6 of a limit are tolerated either way (float product vs exact product)
        near = min(abs(p - 32768), abs(p + 32769), abs(p - 32767), abs(p + 32768)) < 1e-6
        if raised:
            if fits and not near and abs(p) < 32767:
                ctx.violate('traj:%s:raised-for-representable' % kind, {'v': v, 'scaled': p, 'exc': raised}, replay=rp)
            return
        if not fits and not near:
            ctx.violate('traj:%s:overflow-not-raised' % kind, {'v': v, 'scaled': p, 'got': got}, replay=rp)
            return
        if abs(got - p) >= 1 + 1e-6:
            ctx.violate('traj:%s:error-ge-one-unit' % kind, {'v': v, 'scaled': p, 'got': got}, replay=rp)

    for i, v in enumerate(vals):
        y = yaws[i]
        # one field at a time so a raise is attributable
        for kind, args, idx in (('s', (v, 0.0, 0.0, 0.0), 0), ('s', (0.0, v, 0.0, 0.0), 1), ('s', (0.0, 0.0, v, 0.0), 2),
                                ('y', (0.0, 0.0, 0.0, y), 3)):
            if kind == 's' and idx != i % 3:
                continue
            val = y if kind == 'y' else v
            try:
                data = CompressedStart(*args).pack()
            except Exception as e:  # noqa
                check_one(kind, val, None, type(e).__name__)
                continue
            if len(data) != 8:
                ctx.violate('traj:start-length', {'len': len(data)})
                continue
            f = struct.unpack('<hhhh', bytes(data))
            for j in range(4):
                if j != idx and f[j] != 0:
                    ctx.violate('traj:start-field-crosstalk', {'args': args, 'fields': f})
            check_one(kind, val, f[idx], None)
    # the same values through a segment element (one value per axis position): overflow must raise there too
    for i, v in enumerate(vals[::3]):
        y = math.radians(v * 100)
        for kind, val, ax in (('s', v, i % 3), ('y', y, 3)):
            n_el = (1, 3, 7)[i % 3]
            pos = i % n_el
            els = [[], [], [], []]
            els[ax] = [0.0] * n_el
            els[ax][pos] = val
            try:
                data = bytes(CompressedSegment(1.0, *els).pack())
            except Exception as e:  # noqa
                check_one(kind, val, None, type(e).__name__)
                ctx.count('mon.traj_segment_boundary_values')
                continue
            body = struct.unpack('<%dh' % n_el, data[3:]) if len(data) == 3 + 2 * n_el else None
            if body is None or any(b != 0 for k, b in enumerate(body) if k != pos):
                ctx.violate('traj:segment-layout', {'els': els, 'data': data})
                continue
            check_one(kind, val, body[pos], None)
            ctx.count('mon.traj_segment_boundary_values')
    # segments: layout + same fixed point
    nseg = 0
    for _ in range(max(50, desc['n'] // 20)):
        lens = [rnd.choice((0, 1, 3, 7)) for _ in range(4)]
        els = [[rnd.uniform(-32, 32) for _ in range(n)] for n in lens[:3]] + [[rnd.uniform(-5.5, 5.5) for _ in range(lens[3])]]
        dur = rnd.uniform(0, 65.0)
        ctx.evals()
        ctx.count('mon.traj')
        ctx.count('mon.traj_segment')
        seg_obj = CompressedSegment(dur, *els)
        data = bytes(seg_obj.pack())
        # an element is serialised every time its trajectory is uploaded (again after a failed upload, to the next
        # Crazyflie of a swarm, once for the size and once for the bytes): every serialisation is the same
        again = [bytes(seg_obj.pack()) for _ in range(rnd.choice((1, 2)))]
        ctx.count('mon.traj_elements_serialised_again', len(again))
        if any(a != data for a in again):
            ctx.violate('traj:segment-serialised-differently-the-second-time', {'lens': lens, 'first': data.hex(), 'again': again[-1].hex()})
        code = {0: 0, 1: 1, 3: 2, 7: 3}
        want_len = 3 + 2 * sum(lens)
        ok = len(data) == want_len
        if ok:
            types, dms = struct.unpack('<BH', data[:3])
            ok = types == (code[lens[0]] | code[lens[1]] << 2 | code[lens[2]] << 4 | code[lens[3]] << 6)
            ok = ok and abs(dms - dur * 1000) < 1 + 1e-6
            body = struct.unpack('<%dh' % sum(lens), data[3:])
            flat = [(x, 's') for e in els[:3] for x in e] + [(x, 'y') for x in els[3]]
            for (x, kind), g in zip(flat, body):
                p = x * 1000 if kind == 's' else math.degrees(x) * 10
                if abs(g - p) >= 1 + 1e-6:
                    ok = False
        if not ok:
            ctx.violate('traj:segment-layout', {'lens': lens, 'els': els, 'dur': dur, 'data': data})
        nseg += 1
    for n in (2, 4, 5, 6, 8):
        try:
            CompressedSegment(1.0, [0.0] * n, [], [], [])
            ctx.violate('traj:segment-bad-length-accepted', {'n': n})
        except Exception:
            pass
    ctx.sample({'CompressedStart': [vals[0], 0, 0, yaws[0]], 'segments_checked': nseg})


def run_traj1(desc, ctx):
    from cflib.crazyflie.mem.trajectory_memory import CompressedStart
    v, kind = desc['v'], desc['kind']
    args = (v, 0.0, 0.0, 0.0) if kind == 's' else (0.0, 0.0, 0.0, v)
    ctx.evals()
    try:
        f = struct.unpack('<hhhh', bytes(CompressedStart(*args).pack()))
        got = f[0 if kind == 's' else 3]
        p = v * 1000 if kind == 's' else math.degrees(v) * 10
        if abs(got - p) >= 1 + 1e-6:
            ctx.violate('traj:replayed', {'v': v, 'got': got, 'scaled': p})
    except Exception as e:  # noqa
        p = v * 1000 if kind == 's' else math.degrees(v) * 10
        if -32767 < p < 32767:
            ctx.violate('traj:replayed', {'v': v, 'exc': repr(e)})


# ----------------------------------------------------------------------------------------------
class _MemHandler:
    def __init__(self):
        self.writes = []

    def write(self, mem, addr, data, flush_queue=False, progress_cb=None):
        self.writes.append((addr, bytes(data), flush_queue))
        return True

    def read(self, mem, addr, length):
        return True


def _fields(b0, b1):
    return b0 >> 3, ((b0 & 7) << 3) | (b1 >> 5), b1 & 0x1F


def run_led(desc, ctx):
    from cflib.crazyflie.mem.led_driver_memory import LEDDriverMemory
    ch = desc['ch']
    maxf = (31, 63, 31)[ch]
    h = _MemHandler()
    mem = LEDDriverMemory(id=1, type=0x10, size=24, mem_handler=h)
    table = {}
    combos = [(lvl, inten) for inten in range(0, 101, desc['istep']) for lvl in range(256)]
    for k in range(0, len(combos), 12):
        chunk = combos[k:k + 12]
        for led in mem.leds:
            led.r = led.g = led.b = 0
            led.intensity = 100
        for led, (lvl, inten) in zip(mem.leds, chunk):
            setattr(led, 'rgb'[ch], lvl)
            led.intensity = inten
        h.writes.clear()
        mem.write_data(None)
        if len(h.writes) != 1 or len(h.writes[0][1]) != 24 or h.writes[0][0] != 0:
            ctx.violate('led:write-shape', {'writes': h.writes})
            return
        data = h.writes[0][1]
        for j, (lvl, inten) in enumerate(chunk):
            f = _fields(data[2 * j], data[2 * j + 1])
            ctx.evals()
            ctx.count('mon.led')
            ctx.nontrivial(('led', ch, lvl, inten))
            table[(lvl, inten)] = f[ch]
            if any(f[o] != 0 for o in range(3) if o != ch):
                ctx.violate('led:field-crosstalk', {'ch': ch, 'level': lvl, 'intensity': inten, 'fields': f})
            if not 0 <= f[ch] <= maxf:
                ctx.violate('led:field-range', {'ch': ch, 'level': lvl, 'intensity': inten, 'fields': f})
    for inten in range(0, 101, desc['istep']):
        for lvl in range(256):
            v = table[(lvl, inten)]
            if lvl and v < table[(lvl - 1, inten)]:
                ctx.violate('led:not-monotone-in-level', {'ch': ch, 'level': lvl, 'intensity': inten,
                                                          'v': v, 'prev': table[(lvl - 1, inten)]})
            if inten >= desc['istep'] and v < table[(lvl, inten - desc['istep'])]:
                ctx.violate('led:not-monotone-in-intensity', {'ch': ch, 'level': lvl, 'intensity': inten})
        if table[(0, inten)] != 0:
            ctx.violate('led:black-not-zero', {'ch': ch, 'intensity': inten, 'v': table[(0, inten)]})
    if table[(255, 100)] != maxf:
        ctx.violate('led:white-not-full-scale', {'ch': ch, 'v': table[(255, 100)], 'want': maxf})
    # whole rings: every LED is written at its own colour and intensity whatever its neighbours show (one colour as a
    # brightness gradient, mixed colours); the field of this channel must be the one found for that level and intensity
    rrnd = random.Random(desc.get('seed', 0) * 7 + ch)
    intens = list(range(0, 101, desc['istep']))
    for ring in range(40):
        base = [rrnd.randrange(256) for _ in range(3)]
        setup = []
        for j, led in enumerate(mem.leds):
            col = list(base) if ring % 2 == 0 else [rrnd.randrange(256) for _ in range(3)]
            if ring % 4 == 2 and j % 3 == 0:
                col = [255, 255, 255]
            inten = rrnd.choice(intens)
            led.set(col[0], col[1], col[2])
            led.intensity = inten        # (LED.set() takes an intensity of 0 as 'not given'; the attribute is the way to set it)
            setup.append((col, inten))
        h.writes.clear()
        mem.write_data(None)
        data = h.writes[0][1]
        ctx.count('mon.led_rings_with_one_colour_at_several_intensities', 1 if ring % 2 == 0 else 0)
        for j, (col, inten) in enumerate(setup):
            f = _fields(data[2 * j], data[2 * j + 1])
            ctx.evals()
            if f[ch] != table[(col[ch], inten)]:
                ctx.violate('led:ring:led-not-written-at-its-own-colour-and-intensity',
                            {'ch': ch, 'led': j, 'colour': col, 'intensity': inten, 'field': f[ch], 'alone_it_is': table[(col[ch], inten)],
                             'ring': [(c, i) for (c, i) in setup][:12]})
                break
    # all channels together
    for led in mem.leds:
        led.set(255, 255, 255, 100)
    h.writes.clear()
    mem.write_data(None)
    if h.writes[0][1] != b'\xff\xff' * 12:
        ctx.violate('led:white-not-ffff', {'data': h.writes[0][1]})
    for led in mem.leds:
        led.set(0, 0, 0)
    h.writes.clear()
    mem.write_data(None)
    if h.writes[0][1] != b'\x00\x00' * 12:
        ctx.violate('led:black-not-0000', {'data': h.writes[0][1]})
    ctx.sample({'channel': 'rgb'[ch], 'level 128 @100%': table[(128, 100)], 'level 255 @50%': table[(255, 50)]})


def run_led_timing(desc, ctx):
    from cflib.crazyflie.mem.led_timings_driver_memory import LEDTimingsDriverMemory
    for ch in range(3):
        maxf = (31, 63, 31)[ch]
        prev = -1
        for lvl in range(256):
            h = _MemHandler()
            mem = LEDTimingsDriverMemory(id=1, type=0x17, size=100, mem_handler=h)
            rgb = {'r': 0, 'g': 0, 'b': 0}
            rgb['rgb'[ch]] = lvl
            mem.add(time=1, rgb=rgb)
            mem.write_data(None)
            data = h.writes[0][1]
            ctx.evals()
            ctx.count('mon.led_timing')
            ctx.nontrivial(('ledt', ch, lvl))
            if len(data) != 8 or data[0] != 1 or data[3] != 0 or data[4:] != b'\0\0\0\0':
                ctx.violate('ledtiming:entry-shape', {'ch': ch, 'level': lvl, 'data': data})
                continue
            f = _fields(data[1], data[2])
            if any(f[o] != 0 for o in range(3) if o != ch) or not 0 <= f[ch] <= maxf:
                ctx.violate('ledtiming:field-crosstalk-or-range', {'ch': ch, 'level': lvl, 'fields': f})
            if f[ch] < prev:
                ctx.violate('ledtiming:not-monotone', {'ch': ch, 'level': lvl, 'v': f[ch], 'prev': prev})
            prev = f[ch]
            if lvl == 0 and f[ch] != 0:
                ctx.violate('ledtiming:black-not-zero', {'ch': ch})
            if lvl == 255 and f[ch] != maxf:
                ctx.violate('ledtiming:white-not-full-scale', {'ch': ch, 'v': f[ch]})
    # sequences of several steps: every step carries the colour it was given, whatever the steps before it showed (black after
    # white, the same colour twice, ...)
    rnd = random.Random(desc.get('seed', 0) + 13)

    def alone(rgb):
        h1 = _MemHandler()
        m1 = LEDTimingsDriverMemory(id=1, type=0x17, size=100, mem_handler=h1)
        m1.add(time=1, rgb=dict(rgb))
        m1.write_data(None)
        return bytes(h1.writes[0][1][1:3])
    palette = [{'r': 0, 'g': 0, 'b': 0}, {'r': 255, 'g': 255, 'b': 255}, {'r': 255, 'g': 0, 'b': 0}, {'r': 0, 'g': 8, 'b': 0}]
    for it in range(60):
        steps = [dict(rnd.choice(palette)) if rnd.random() < 0.6 else {'r': rnd.randrange(256), 'g': rnd.randrange(256), 'b': rnd.randrange(256)}
                 for _ in range(rnd.randint(2, 10))]
        if it % 3 == 0:
            steps[rnd.randrange(1, len(steps))] = {'r': 0, 'g': 0, 'b': 0}
        h = _MemHandler()
        mem = LEDTimingsDriverMemory(id=1, type=0x17, size=200, mem_handler=h)
        for st in steps:
            mem.add(time=rnd.randint(1, 200), rgb=dict(st))
        mem.write_data(None)
        data = bytes(h.writes[0][1])
        ctx.evals()
        ctx.count('mon.led_timing_sequences')
        if any(st == palette[0] for st in steps[1:]):
            ctx.count('mon.led_timing_sequences_with_a_black_step_after_another_step')
        got = [data[4 * k + 1:4 * k + 3] for k in range(len(steps))]
        want = [alone(st) for st in steps]
        if len(data) != 4 * len(steps) + 4 or got != want:
            ctx.violate('ledtiming:sequence:step-does-not-carry-its-own-colour',
                        {'steps': steps[:10], 'words': [g.hex() for g in got], 'words_when_sent_alone': [w.hex() for w in want], 'bytes': len(data)})
    ctx.sample({'led timing levels checked': 768})


# ----------------------------------------------------------------------------------------------
class _StubCf:
    def __init__(self):
        self.cbs = []

    def add_port_callback(self, port, cb):
        self.cbs.append((port, cb))


_contract_state = {'installed': False, 'evals': 0, 'bad': []}


def _install_fp16_contract():
    """icontract postcondition on the alias used by the localization decoder."""
    if _contract_state['installed']:
        return
    import icontract
    import cflib.crazyflie.localization as loc

    class Fp16PostBroken(Exception):
        pass

    def matches_binary16(float16, result):
        _contract_state['evals'] += 1
        if not _same_float(result, _f16_ref(float16)):
            _contract_state['bad'].append((float16, repr(result)))
        return True
    loc.fp16_to_float = icontract.ensure(matches_binary16, error=Fp16PostBroken)(loc.fp16_to_float)
    _contract_state['installed'] = True


def _half_pool(rnd):
    import numpy as np
    specials = [0x0000, 0x8000, 0x0001, 0x8001, 0x03FF, 0x83FF, 0x0400, 0x8400, 0x7BFF, 0xFBFF, 0x3C00, 0xBC00]
    while True:
        r = rnd.random()
        if r < 0.3:
            yield rnd.choice(specials)
        else:
            b = rnd.randrange(65536)
            if (b >> 10) & 0x1F == 31:
                continue  # the device never encodes inf/NaN offsets
            yield b
    del np


def run_loc(desc, ctx):
    from cflib.crtp.crtpstack import CRTPPacket
    from cflib.crazyflie.localization import Localization
    _install_fp16_contract()
    rnd = random.Random(desc['seed'])
    stub = _StubCf()
    loc = Localization(stub)
    if len(stub.cbs) != 1 or stub.cbs[0][0] != 6:
        ctx.violate('loc:not-registered-on-port-6', {'cbs': repr(stub.cbs)})
        return
    incoming = stub.cbs[0][1]
    got = []
    loc.receivedLocationPacket.add_callback(got.append)
    halves = _half_pool(rnd)

    def f32(x):
        return struct.unpack('<f', struct.pack('<f', x))[0]
    for it in range(desc['n']):
        pk = CRTPPacket()
        pk.set_header(6, 1)
        got.clear()
        if it % 2 == 0:
            n = rnd.randrange(0, 6)
            ids = rnd.sample(range(256), n)
            dists = [f32(rnd.choice((rnd.uniform(0, 30), rnd.uniform(-1e3, 1e3), 0.0, -0.0, 3.4e38, 1e-40)))
                     for _ in range(n)]
            payload = bytes([0]) + b''.join(struct.pack('<Bf', i, d) for i, d in zip(ids, dists))
            pk.data = payload
            incoming(pk)
            ctx.evals()
            ctx.count('mon.range')
            ctx.nontrivial(('range', payload))
            ok = len(got) == 1 and got[0].type == 0 and isinstance(got[0].data, dict) and \
                len(got[0].data) == n and all(i in got[0].data and _same_float(got[0].data[i], d)
                                              for i, d in zip(ids, dists)) and bytes(got[0].raw_data) == payload[1:]
            if not ok:
                ctx.violate('loc:range-report-decode', {'payload': payload, 'got': repr(got)})
            if it == 0:
                ctx.sample({'range report': payload, 'decoded': repr(got[0].data) if got else None})
        else:
            bs = rnd.randrange(0, 16)
            x0 = f32(rnd.uniform(-math.pi, math.pi))
            y0 = f32(rnd.uniform(-math.pi, math.pi))
            hx = [next(halves) for _ in range(3)]
            hy = [next(halves) for _ in range(3)]
            sg = [h - 65536 if h >= 32768 else h for h in hx + hy]
            payload = bytes([10]) + struct.pack('<Bfhhhfhhh', bs, x0, sg[0], sg[1], sg[2], y0, sg[3], sg[4], sg[5])
            pk.data = payload
            incoming(pk)
            ctx.evals()
            ctx.count('mon.lh_angle')
            ctx.nontrivial(('lh', payload))
            wx = [x0] + [x0 - _f16_ref(h) for h in hx]
            wy = [y0] + [y0 - _f16_ref(h) for h in hy]
            ok = len(got) == 1 and got[0].type == 10 and isinstance(got[0].data, dict)
            if ok:
                d = got[0].data
                ok = d.get('basestation') == bs and len(d.get('x', ())) == 4 and len(d.get('y', ())) == 4 and \
                    all(_same_float(a, b) or (a == b == 0) for a, b in zip(d['x'], wx)) and \
                    all(_same_float(a, b) or (a == b == 0) for a, b in zip(d['y'], wy))
            if not ok:
                cls = sorted({_fp16_class(h) + ('-neg' if h & 0x8000 else '') for h in hx + hy})
                mech = 'loc:lh-angle-decode'
                if cls and all(c in ('zero-neg',) or True for c in cls):
                    pass
                ctx.violate(mech, {'payload': payload, 'want_x': wx, 'want_y': wy, 'got': repr(got),
                                   'offset_classes': cls}, replay={'part': 'loc', 'seed': desc['seed'], 'n': it + 1})
            if it == 1:
                ctx.sample({'lh angle stream': payload, 'decoded': repr(got[0].data) if got else None})
    # malformed range report is dropped, not mis-decoded
    pk = CRTPPacket()
    pk.set_header(6, 1)
    pk.data = bytes([0, 1, 2, 3])
    got.clear()
    incoming(pk)
    if got:
        ctx.violate('loc:range-report-wrong-length-delivered', {'got': repr(got)})
    ctx.count('mon.fp16_contract', _contract_state['evals'])
    _contract_state['evals'] = 0
    for b in _contract_state['bad'][:3]:
        ctx.violate('fp16:contract-in-localization:%s' % _fp16_class(b[0] & 0xFFFF), {'arg': b[0], 'result': b[1]})
    _contract_state['bad'].clear()


def run(desc, ctx):
    globals()['run_' + desc['part']](desc, ctx)
