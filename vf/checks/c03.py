"""C03 - downloaded log and parameter tables equal the device tables.

The real Crazyflie connection sequence runs against the simulated device under the deterministic
scheduler.  A callback registered on `connected` snapshots both tables at that instant and runs the
lookup-consistency probes on the live Toc objects; the oracle is the device's own tables.
"""
import random

from vf import core, gen, harness, oracles

PROPERTY = 'C03'
LEVEL = 'exploration'
RULE = ('cases = (table sizes incl. 0,1,2,254..257,300 and random; protocol version <4 / >=4; ISO-8859-1 names up to '
        'the packet limit; reply policy in {in-order, duplicated, delayed duplicates, delayed, lossy link with retry '
        'timers, stale replies of an aborted previous session}; scheduler policy/seed). distinct_nontrivial = number '
        'of distinct (device table hash, reply-policy, observed downlink packet sequence hash) among cases that '
        'reached `connected` with at least one table entry.')
ASSUMPTIONS = ['simulated device implements the firmware TOC protocol (V1 and V2) as documented',
               'platform / link-control requests are never lost (the library sends them without retry)']
REQUIRED = ['mon.sessions_after_a_link_error_mid_download_and_another_parameter_table', 'mon.stale_log_reset_answers_at_the_start_of_the_next_session', 'mon.stale_item_answers_in_the_format_of_the_other_protocol_generation', 'mon.stale_item_answers_right_in_front_of_the_table_info_answer', 'mon.copies_of_item_answers_arriving_in_the_extended_type_phase', 'mon.cached_sessions_with_one_checksum_for_both_tables', 'mon.tables_at_connected', 'mon.lookup_entries', 'mon.stale_sessions', 'mon.lossy_retransmissions',
            'mon.v1_cases', 'mon.over_255', 'mon.cache_reconnects', 'mon.early_param_packets',
            'mon.stale_item_replies_mid_download', 'mon.cache_shared_with_another_firmware',
            'mon.cache_files_in_an_older_format']
DESC_TIMEOUT = 900

SIZES = [0, 1, 2, 3, 254, 255, 256, 257, 300]
POLICIES = ['inorder', 'dup', 'dupdelay', 'delay', 'lossy', 'stale', 'cachenotify', 'notify']


def cases(tier, seed):
    rnd = random.Random(seed * 7919 + 3)
    out = []
    k = 0

    def add(nlog, nparam, proto, pol, latin, samecrc=False):
        nonlocal k
        k += 1
        out.append({'seed': seed * 100000 + k, 'nlog': nlog, 'nparam': nparam, 'proto': proto, 'policy': pol,
                    'latin': latin, 'sched': rnd.choice(['rtb', 'random', 'random', 'pct'])})
        if samecrc:
            out[-1]['samecrc'] = True
    # both tables announce the same checksum (they share one cache): sizes 0 and small, with the cache in use
    for (nl, np_) in ((0, 5), (4, 0), (0, 0), (3, 3), (0, rnd.randint(1, 20)), (rnd.randint(1, 20), 0)):
        for proto in (3, 10):
            add(nl, np_, proto, 'cachenotify', False, samecrc=True)
    # fixed corpus: boundary sizes x protocol generation x policy
    for n in SIZES:
        for proto in (3, 10):
            if proto < 4 and n > 255:
                continue
            for pol in (POLICIES if n in (0, 2, 255, 257) else ['inorder', 'dupdelay', 'stale', 'cachenotify']):
                add(n, SIZES[(SIZES.index(n) * 5 + 3) % len(SIZES)] if proto >= 4 else min(n + 1, 255), proto, pol,
                    latin=(n % 2 == 1))
    nrand = 400 if tier == 'quick' else 3000
    for _ in range(nrand):
        proto = rnd.choice((-1, 0, 3, 4, 7, 10, 10))
        mx = 255 if proto < 4 else (60 if rnd.random() < 0.85 else 400)
        add(rnd.randint(0, mx), rnd.randint(0, mx), proto, rnd.choice(POLICIES), rnd.random() < 0.4)
    return out


def run(desc, ctx):
    harness.init()
    from vf import detsched as ds, simcf, simlink
    from cflib.crazyflie import Crazyflie
    rnd = random.Random(desc['seed'])
    prof = gen.profile(desc['seed'], desc['nlog'], desc['nparam'], proto=desc['proto'], latin=desc['latin'])
    if desc['proto'] <= 0:
        prof['legacy_source'] = desc['proto'] < 0    # no magic string -> protocol version stays -1
        prof['proto'] = max(desc['proto'], 0)
    pol = desc['policy']
    other_fw = None
    if desc.get('samecrc'):
        prof['param_crc'] = prof['log_crc']
        ctx.count('mon.cached_sessions_with_one_checksum_for_both_tables')
    if pol == 'cachenotify' and desc['seed'] % 3 == 0 and not desc.get('samecrc'):
        # the cache already holds the tables of ANOTHER firmware whose checksums end with the same hex digits as the
        # (short, leading-zero) checksums of the device under test
        prof['log_crc'] = rnd.choice((0, 0x13C7, rnd.randrange(1, 0x10000), rnd.randrange(1, 0x1000000)))
        prof['param_crc'] = rnd.choice((0xB2D6, rnd.randrange(1, 0x10000), rnd.randrange(1, 0x1000000)))
        if prof['param_crc'] == prof['log_crc']:
            prof['param_crc'] += 1
        other_fw = gen.profile(desc['seed'] + 991, max(1, desc['nlog'] // 2 + 1), max(1, desc['nparam'] // 2 + 2), proto=10)
        other_fw['log_crc'] = 0x5A0F0000 | prof['log_crc'] if prof['log_crc'] < 0x10000 else 0x5A000000 | prof['log_crc']
        other_fw['param_crc'] = 0x7B1D0000 | prof['param_crc'] if prof['param_crc'] < 0x10000 else 0x7B000000 | prof['param_crc']
    obs = {'connected': [], 'lookups': 0}
    dev = simcf.SimCF(prof)
    spec = simlink.LinkSpec(dev, needs_resending=(pol == 'lossy'), latency=0.001)
    uri = 'sim://c03'
    simlink.SIMS[uri] = spec
    if pol not in ('stale', 'inorder', 'cachenotify', 'notify'):
        spec.reply_policy = gen.make_reply_policy(pol, desc['seed'], p=0.3 if pol != 'lossy' else 0.15)
    if pol == 'lossy':
        spec.tx_filter = gen.make_tx_filter(desc['seed'], p=0.15)
    if pol == 'dupdelay' and desc['proto'] >= 4 and desc['seed'] % 2 == 0:
        # copies of parameter TOC item answers that are late enough to arrive while the extended types are being asked for
        base_policy = spec.reply_policy
        erng = random.Random(desc['seed'] ^ 0xE7)
        n_ext = sum(1 for q in prof['param'] if q.get('ext'))

        def late_item_copies(sp, n, h, d):
            outs = base_policy(sp, n, h, d)
            if (h >> 4) & 0xF == 2 and h & 3 == 3 and len(d) >= 4 and d[0] == 2 and erng.random() < 0.4:
                # ... in particular the copy of the item answer of the very parameter whose extended type has just
                # been asked for, delivered right in front of the answer to that question
                import struct as _st
                idx = d[1] | d[2] << 8
                if idx < len(dev.params):
                    outs = [(0.0, simcf.hdr(2, 0), bytes([2]) + _st.pack('<H', idx) + dev.param_item(idx))] + outs
                    obs['late_item_copies'] = obs.get('late_item_copies', 0) + 1
            if (h >> 4) & 0xF == 2 and h & 3 == 0 and len(d) > 3 and d[0] == 2 and n_ext and erng.random() < 0.5:
                idx = d[1] | d[2] << 8
                outs = outs + [(erng.uniform(0.0, 0.0025 * (len(prof['param']) - idx + n_ext)), h, d)]
                obs['late_item_copies'] = obs.get('late_item_copies', 0) + 1
            return outs
        spec.reply_policy = late_item_copies
    exp_log, exp_param = oracles.expected_log(dev), oracles.expected_param(dev)
    absent = [('nope', 'x'), (dev.log_toc[0][0], 'zz~') if dev.log_toc else ('a', 'b')]

    cache_dir = None
    if pol == 'cachenotify':
        import tempfile
        cache_dir = tempfile.mkdtemp(prefix='vf_c03_')

    def early_param_packets(link):
        # what a device may send at any time on the param port: a value-changed notification (V2) or the late
        # reply to a read of the previous session
        n = 0
        for _ in range(rnd.randint(1, 3)):
            if not dev.params:
                break
            i = rnd.randrange(len(dev.params))
            if dev.proto >= 4 and rnd.random() < 0.7:
                h, d = dev.value_updated_packet(i)
            elif dev.proto >= 4:
                import struct as _st
                h, d = simcf.hdr(2, 1), _st.pack('<H', i) + b'\0' + dev.param_value_bytes(i)
            else:
                h, d = simcf.hdr(2, 1), bytes([i]) + dev.param_value_bytes(i)
            link.inject(h, d, rnd.choice((0.0, 0.0005, 0.002, 0.004, 0.008)))
            n += 1
        obs['early'] = obs.get('early', 0) + n

    def fn(s):
        dev.now = lambda: s.now
        if other_fw is not None:
            deva = simcf.SimCF(other_fw)
            deva.now = lambda: s.now
            simlink.SIMS['sim://c03a'] = simlink.LinkSpec(deva, latency=0.001)
            cfa = Crazyflie(rw_cache=cache_dir)
            da = ds.Event()
            cfa.connected.add_callback(lambda u: da.set())
            cfa.connection_failed.add_callback(lambda *a: da.set())
            cfa.open_link('sim://c03a')
            da.wait(300.0)
            s.sleep(0.2)
            cfa.close_link()
            s.sleep(0.2)
            obs['other_firmware_cached'] = True
        cf = Crazyflie(rw_cache=cache_dir)
        done = ds.Event()
        session = {'n': 1}

        def on_connected_factory(cfx):
            def cb(uri_):
                return on_connected(uri_, cfx)
            return cb

        def on_connected(uri_, cfx=None):
            cfx = cfx or cf
            lt, pt = cfx.log.toc, cfx.param.toc
            snap = (session['n'], oracles.snapshot_toc(lt), oracles.snapshot_toc(pt))
            issues = []
            if lt is not None:
                li, n1 = oracles.lookup_consistency('log', lt, exp_log, absent)
                issues += li
                obs['lookups'] += n1
            if pt is not None:
                pi, n2 = oracles.lookup_consistency('param', pt, exp_param, absent)
                issues += pi
                obs['lookups'] += n2
            obs['connected'].append((snap, issues))
            done.set()
        cf.connected.add_callback(on_connected)
        cf.connection_failed.add_callback(lambda *a: done.set())
        if pol == 'stale':
            # session 1 is aborted by the user in the middle of a table download; what the device had
            # already queued for the host is delivered at the start of session 2.
            total = 12 + desc['nlog'] + desc['nparam']
            k = rnd.randint(4, max(5, total))
            cf.open_link(uri)
            guard = 0
            while spec.n_tx < k and not done.is_set() and guard < 200000:
                s.sleep(0.0005)
                guard += 1
            link1 = cf.link
            log_table_begun = cf.log.toc is not None
            variant = desc['seed'] % 2 if (link1 is not None and not done.is_set() and len(dev.params) >= 2) else 0

            def reflash():
                dev.params.reverse()
                gone = dev.params.pop()
                dev.params[0] = dict(dev.params[0], g='zz' + dev.params[0]['g'][:8])
                dev.param_crc = (dev.param_crc * 31 + 7) & 0xFFFFFFFF
                exp_param.clear()
                exp_param.update(oracles.expected_param(dev))
                absent.append((gone['g'], gone['n']))
            if variant == 1:
                # session 1 is not closed by the user but ends with a link error in the middle of its downloads; the
                # application waits until it has been told, the Crazyflie is flashed with a firmware that has another
                # parameter table, and the same object connects again
                told = ds.Event()
                cf.connection_lost.add_callback(lambda *a: told.set())
                cf.connection_failed.add_callback(lambda *a: told.set())
                link1._fault()
                told.wait(30.0)
                s.sleep(0.02)
                done.clear()
                if cf.link is not None:
                    cf.close_link()
                reflash()
                obs['reflashed_after_link_error'] = True
            else:
                cf.close_link()
            left = [(h, d) for (_, _, h, d) in sorted(link1._inflight)] if link1 is not None else []
            obs['stale_left'] = len(left)
            s.sleep(rnd.choice((0.0, 0.01, 1.5)))
            done.clear()
            obs['connected'].clear()
            session['n'] = 2
            # ... at the very start of session 2, or anywhere during its downloads (a radio may hold a packet that long)
            span = rnd.choice((0.003, 0.003, 0.02, 0.002 * total))
            spec.carry = [(rnd.uniform(0.0, span), h, d) for (h, d) in left]
            if span > 0.003 and left:
                obs['stale_mid_download'] = True
            # ... and an item answer of the old session may arrive just in front of the answer to the new session's
            # question about the table itself (count and checksum)
            srng = random.Random(desc['seed'] ^ 0x51A1E)

            def item_before_info(sp, n, h, d):
                outs = [(0.0, h, d)]
                port = (h >> 4) & 0xF
                if port in (2, 5) and h & 3 == 0 and d and d[0] in ((3,) if dev.proto >= 4 else (1,)) and srng.random() < 0.5:
                    count, item = (len(dev.log_toc), dev.log_item) if port == 5 else (len(dev.params), dev.param_item)
                    if count:
                        import struct as _st2
                        idx = srng.randrange(count)
                        dd = (bytes([2]) + _st2.pack('<H', idx) + item(idx)) if dev.proto >= 4 else (bytes([0, idx]) + item(idx))
                        outs = [(0.0, simcf.hdr(port, 0), dd)] + outs
                        obs['stale_item_before_info'] = obs.get('stale_item_before_info', 0) + 1
                # ... and the firmware the earlier session talked to may have been of the other protocol generation (the
                # Crazyflie was flashed in between, or another one answers on this address now): an item answer in the
                # other generation's format arrives right in front of the item answer the new session waits for
                item_cmd = 2 if dev.proto >= 4 else 0
                if port in (2, 5) and h & 3 == 0 and len(d) >= 3 and d[0] == item_cmd and srng.random() < 0.15:
                    import struct as _st3
                    idx = (d[1] | (d[2] << 8)) if dev.proto >= 4 else d[1]
                    if idx < 256:
                        if dev.proto >= 4:
                            dd = bytes([0, idx, 0]) + b'og\0other\0'
                        else:
                            dd = bytes([2]) + _st3.pack('<H', idx) + bytes([0]) + b'og\0other\0'
                        outs = [(0.0, simcf.hdr(port, 0), dd)] + outs
                        obs['other_generation_items'] = obs.get('other_generation_items', 0) + 1
                return outs
            spec.reply_policy = item_before_info
        if pol == 'cachenotify':
            # first connection fills the cache; the second one (same object or a fresh one sharing the cache) is
            # served from it while the device also sends parameter packets of its own
            cf.open_link(uri)
            done.wait(120.0 + (desc['nlog'] + desc['nparam']) * 2.0)
            s.sleep(0.3)
            cf.close_link()
            s.sleep(0.2)
            if other_fw is None and desc['seed'] % 3 == 1:
                # the cache files were written by an older release: same format, but without the `extended` field
                import json as _json
                import os as _os
                for fnm in _os.listdir(cache_dir):
                    pth = _os.path.join(cache_dir, fnm)
                    try:
                        doc = _json.load(open(pth))
                    except Exception:
                        continue
                    hit = False
                    for g in doc.values():
                        for e in (g.values() if isinstance(g, dict) else ()):
                            if isinstance(e, dict) and 'extended' in e:
                                del e['extended']
                                hit = True
                    if hit:
                        _json.dump(doc, open(pth, 'w'))
                        obs['old_format_cache'] = True
            done.clear()
            obs['connected'].clear()
            session['n'] = 2
            if rnd.random() < 0.5:
                cf = Crazyflie(rw_cache=cache_dir)
                cf.connected.add_callback(on_connected_factory(cf))
                cf.connection_failed.add_callback(lambda *a: done.set())
            obs['cf2'] = cf
        cf.open_link(uri)
        if pol in ('cachenotify', 'notify') and cf.link is not None:
            early_param_packets(cf.link)
            if pol == 'cachenotify' and desc['seed'] % 2 == 0:
                # a copy of the log-reset answer of the earlier session arrives before this session has asked anything
                cf.link.inject(simcf.hdr(5, 1), bytes([5, 0, 0]), 0.0)
                obs['stale_log_reset_answer'] = True
        if pol == 'stale' and cf.link is not None:
            for (dl, h, d) in spec.carry:
                cf.link.inject(h, d, dl)
            if log_table_begun and desc['seed'] % 3 == 0:
                # the answer to the log reset of the aborted session (it had got as far as its log table) arrives first of all,
                # before this session has asked anything
                cf.link.inject(simcf.hdr(5, 1), bytes([5, 0, 0]), 0.0)
                obs['stale_log_reset_answer'] = True
            # further answers to item requests of the aborted session (any index: the old session may have been
            # further along than the new one is when they arrive)
            import struct as _st
            total = 12 + desc['nlog'] + desc['nparam']
            for _ in range(rnd.randint(0, 4)):
                port, count, item = rnd.choice(((5, len(dev.log_toc), dev.log_item), (2, len(dev.params), dev.param_item)))
                if not count:
                    continue
                idx = rnd.randrange(count)
                if dev.proto >= 4:
                    d = bytes([2]) + _st.pack('<H', idx) + item(idx)
                else:
                    d = bytes([0, idx]) + item(idx)
                cf.link.inject(simcf.hdr(port, 0), d, rnd.uniform(0.0, 0.0022 * total))
                obs['stale_items'] = obs.get('stale_items', 0) + 1
        done.wait(120.0 + (desc['nlog'] + desc['nparam']) * 2.0)
        s.sleep(0.05)
        cf.close_link()
        return None

    try:
        _, abort, s = harness.sched_case(fn, seed=desc['seed'], policy=desc['sched'], line_p=harness.line_p_for(desc['seed'], 8, 0.05), horizon=3000.0, max_steps=12_000_000)
        ctx.count('mon.statement_level_preemption_points', s.line_points)
    finally:
        if cache_dir:
            import shutil
            shutil.rmtree(cache_dir, ignore_errors=True)
    ctx.evals()
    rp = dict(desc)
    if abort is not None:
        ctx.violate('toc:hang-during-download:%s' % type(abort).__name__,
                    {'abort': str(abort), 'threads': abort.table, 'policy': pol}, replay=rp)
        return
    for name, exc, tb in s.deaths:
        ctx.violate('toc:thread-died:%s' % exc.split('(')[0], {'thread': name, 'traceback': tb}, replay=rp)
    if not obs['connected']:
        ctx.violate('toc:download-incomplete', {'policy': pol, 'rx': len(spec.rx), 'tx': len(spec.tx),
                                                'last_tx': [t[2:4] for t in spec.tx[-4:]], 'last_table_tx': [(round(t[0], 4), t[1], t[2], bytes(t[3]).hex()) for t in spec.tx if (t[2] >> 4) in (2, 5, 4)][-8:], 'last_table_rx': [(round(t[0], 4), t[1], t[2], bytes(t[3]).hex()) for t in spec.rx if (t[2] >> 4) in (2, 5, 4)][-6:], 'reflashed': obs.get('reflashed_after_link_error')}, replay=rp)
        return
    for (snap, issues) in obs['connected']:
        ctx.count('mon.tables_at_connected')
        _, lsnap, psnap = snap
        for m, d in oracles.diff_table('log', lsnap, exp_log) + oracles.diff_table('param', psnap, exp_param):
            d['policy'] = pol
            ctx.violate('toc:' + m, d, replay=rp)
        for m, d in issues:
            ctx.violate('toc:' + m, d, replay=rp)
    ctx.count('mon.lookup_entries', obs['lookups'])
    ctx.count('mon.sessions_after_a_link_error_mid_download_and_another_parameter_table', 1 if obs.get('reflashed_after_link_error') else 0)
    ctx.count('mon.copies_of_item_answers_arriving_in_the_extended_type_phase', obs.get('late_item_copies', 0))
    ctx.count('mon.stale_log_reset_answers_at_the_start_of_the_next_session', 1 if obs.get('stale_log_reset_answer') else 0)
    if pol == 'stale':
        ctx.count('mon.stale_sessions')
        ctx.count('mon.stale_packets_delivered', obs.get('stale_left', 0))
        if obs.get('stale_mid_download'):
            ctx.count('mon.stale_packets_delivered_mid_download')
        ctx.count('mon.stale_item_replies_mid_download', obs.get('stale_items', 0))
        ctx.count('mon.stale_item_answers_right_in_front_of_the_table_info_answer', obs.get('stale_item_before_info', 0))
        ctx.count('mon.stale_item_answers_in_the_format_of_the_other_protocol_generation', obs.get('other_generation_items', 0))
    if obs.get('old_format_cache'):
        ctx.count('mon.cache_files_in_an_older_format')
    if obs.get('other_firmware_cached'):
        ctx.count('mon.cache_shared_with_another_firmware')
    if pol == 'cachenotify':
        ctx.count('mon.cache_reconnects')
    if pol in ('cachenotify', 'notify'):
        ctx.count('mon.early_param_packets', obs.get('early', 0))
    if pol == 'lossy':
        ctx.count('mon.lossy_retransmissions', max(0, len(spec.tx) - len({(t[2], t[3]) for t in spec.tx})))
    if desc['proto'] < 4:
        ctx.count('mon.v1_cases')
    if max(desc['nlog'], desc['nparam']) > 255:
        ctx.count('mon.over_255')
    if desc['nlog'] + desc['nparam'] > 0:
        ctx.nontrivial((core.h64(prof), pol, core.h64([(h, d.hex()) for (_, _, h, d, _q) in spec.rx])))
    ctx.sample({'nlog': desc['nlog'], 'nparam': desc['nparam'], 'proto': desc['proto'], 'policy': pol,
                'sched': desc['sched'], 'uplink_packets': len(spec.tx), 'downlink_packets': len(spec.rx),
                'connected_events': len(obs['connected']), 'first_log_entry': dev.log_toc[:1],
                'scheduler_steps': s.steps, 'interleaving_signature': s.signature()})
