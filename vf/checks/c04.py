"""C04 - parameter writes and reads are typed correctly and never cross-attributed.

Real Crazyflie + real _ParamUpdater thread under detsched against simcf.  Monitors: port-2 packets at
the device (virtual time stamped), call/return of every user operation per user thread (scheduler
step stamps), every update / persistent / default-value callback invocation.  Oracles: reference
encoding of each accepted write, sequence equality between value replies on the wire and callback
invocations, one-outstanding and issue-order rules over the wire log, exact attribution of misc replies.
"""
import math
import random
import struct

from vf import core, gen, harness, simcf

PROPERTY = 'C04'
LEVEL = 'exploration'
RULE = ('case = (device parameter table over all 10 firmware types, protocol generation, 1..4 user threads with 1..40 '
        'operations each drawn from set_value (boundary / random / out-of-range / read-only / unknown), '
        'request_param_update, get_value, persistent_store/clear/get_state, get_default_value, injected '
        'value-updated notifications, reply delays 0..0.5 s virtual, scheduler policy and seed). '
        'distinct_nontrivial = distinct (operation program hash, wire-sequence hash) with >=1 value reply.')
ASSUMPTIONS = ['simulated device implements the firmware param protocol (read/write/misc) as documented',
               'a default-value reply whose first value byte equals ENOENT is ambiguous in the protocol; None or the value '
               'are both accepted for it', 'each (misc command, parameter) pair is outstanding at most once']
REQUIRED = ['mon.cached_sessions_with_a_change_notification_before_the_tables_are_there', 'mon.sessions_with_the_tables_taken_from_the_cache', 'mon.persistent_requests_accepted', 'mon.extended_type_answers_arriving_twice_during_set_up', 'mon.values_read_back_inside_an_update_callback', 'mon.writes_checked', 'mon.refused_checked', 'mon.value_replies', 'mon.callback_invocations',
            'mon.misc_replies', 'mon.one_outstanding_pairs', 'mon.precedence_pairs', 'mon.notifications',
            'mon.multi_outstanding_misc_cases', 'mon.v1_cases', 'mon.state_queries_answered_enoent',
            'mon.instant_reply_cases_with_statement_level_preemption', 'mon.additional_listeners_checked',
            'mon.cases_with_replies_delayed_by_seconds', 'mon.queries_reissued_from_their_own_callback']
DESC_TIMEOUT = 900

FLOATS = [0.0, -0.0, 1.5, -2.25, float('inf'), float('-inf'), float('nan'), 1e-45, 3.4028234663852886e38, 1e39,
          -1e39, 1e-320, 123456.789]


def cases(tier, seed):
    rnd = random.Random(seed * 48611 + 5)
    out = []
    n = 300 if tier == 'quick' else 2500
    for i in range(n):
        proto = rnd.choice((10, 10, 10, 7, 4, 3, 0))
        out.append({'seed': seed * 1000003 + i, 'proto': proto, 'nparam': rnd.randint(3, 14),
                    'threads': rnd.randint(1, 4), 'ops': rnd.randint(1, 40 if i % 3 else 12),
                    'maxdelay': rnd.choice((0.0, 0.01, 0.5, 3.0)), 'sched': rnd.choice(('rtb', 'random', 'random', 'pct')),
                    'line_p': rnd.choice((0.0, 0.0, 0.05, 0.25)), 'misc_burst': i % 4 == 0})
    return out


def _same(a, b):
    if isinstance(b, float):
        if b != b:
            return isinstance(a, float) and a != a
        return isinstance(a, (int, float)) and float(a) == b and (b != 0 or math.copysign(1, float(a)) == math.copysign(1, b))
    return a == b


def _parse(s, t):
    if t in (6, 7):
        return float(s)
    return int(s)


def gen_ops(rnd, dev, nops, v2, misc_burst):
    ops = []
    used_misc = set()
    names = [(i, p) for i, p in enumerate(dev.params)]
    for _ in range(nops):
        r = rnd.random()
        i, p = rnd.choice(names)
        name = '%s.%s' % (p['g'], p['n'])
        t = p['t']
        if r < 0.45:
            if t in gen.INT_RANGE:
                lo, hi = gen.INT_RANGE[t]
                v = rnd.choice((lo, hi, lo - 1, hi + 1, 0, -1, rnd.randint(lo, hi), rnd.randint(lo, hi),
                                rnd.randint(lo, hi)))
            else:
                v = rnd.choice(FLOATS + [rnd.uniform(-1e6, 1e6)] * 4)
            ops.append(('set', name, v))
        elif r < 0.5:
            ops.append(('set', rnd.choice(('nope.x', p['g'] + '.nope', 'q.' + p['n'])), 1))
        elif r < 0.65:
            ops.append(('update', name))
        elif r < 0.72:
            ops.append(('get', name))
        elif r < 0.75 and v2:
            ops.append(('notify', i, gen.param_value(rnd, t)))
        elif v2:
            cmd = rnd.choice(('store', 'clear', 'state', 'default', 'state', 'default'))
            if (cmd, i) in used_misc:
                ops.append(('update', name))
                continue
            used_misc.add((cmd, i))
            ops.append((cmd, name, i))
        else:
            ops.append(('update', name))
    if misc_burst and v2:
        # several outstanding persistent / default queries on different parameters, back to back
        pers = [(i, p) for i, p in names if p.get('pers')]
        burst = []
        for (i, p) in pers[:4]:
            if ('state', i) not in used_misc:
                used_misc.add(('state', i))
                burst.append(('state', '%s.%s' % (p['g'], p['n']), i))
        for (i, p) in names[:4]:
            if ('default', i) not in used_misc:
                used_misc.add(('default', i))
                burst.append(('default', '%s.%s' % (p['g'], p['n']), i))
        ops = burst + ops
    return ops


def run(desc, ctx):
    harness.init()
    from vf import detsched as ds, simlink
    from cflib.crazyflie import Crazyflie
    import threading
    rnd = random.Random(desc['seed'])
    proto = desc['proto']
    v2 = proto >= 4
    prof = gen.profile(desc['seed'], 2, desc['nparam'], proto=proto, ext_frac=0.5, ro_frac=0.2)
    # make sure every type occurs over the corpus and at least two persistent parameters exist when V2
    if v2:
        k = 0
        for p in prof['param']:
            if k < 3 and not p['ro']:
                p['ext'] = p['pers'] = True
                k += 1
    dev = simcf.SimCF(prof)
    if desc['seed'] % 3 == 0:
        # the firmware answers "no such entry" to the state query of some parameters the table marks persistent
        enoent = {i for i, p in enumerate(prof['param']) if p.get('pers') and (i + desc['seed']) % 2 == 0}
        dev.hooks['persist_err'] = lambda cmd, idx: simcf.ENOENT if (cmd == 4 and idx in enoent) else None
    # with statement-level pre-emption and no reply delay the answer is available the moment the request has been handed
    # to the link: the dispatcher may process it before the sending thread executes its next statement
    instant = desc['line_p'] > 0 and desc['maxdelay'] == 0.0
    spec = simlink.LinkSpec(dev, needs_resending=False, latency=0.0 if instant else 0.001)
    uri = 'sim://c04'
    simlink.SIMS[uri] = spec
    drnd = random.Random(desc['seed'] ^ 0x77)
    if desc['maxdelay'] > 0:
        spec.reply_policy = lambda sp, n, h, d: [(drnd.uniform(0, desc['maxdelay']) if (h >> 4) == 2 else 0.0, h, d)]
    connecting = {'on': True, 'dups': 0}
    if v2 and desc['seed'] % 4 == 1:
        # while the library asks, one parameter at a time, which of the parameters are persistent, some answers arrive twice
        # (the acknowledgement of the first copy was lost on the air)
        base_pol = spec.reply_policy

        def dup_ext(sp, n, h, d):
            outs = base_pol(sp, n, h, d) if base_pol is not None else [(0.0, h, d)]
            if connecting['on'] and (h >> 4) & 0xF == 2 and h & 3 == 3 and d and d[0] == 2 and drnd.random() < 0.5:
                outs = outs + [(outs[0][0] + drnd.choice((0.0, 0.0004)), h, d)]
                connecting['dups'] += 1
            return outs
        spec.reply_policy = dup_ext
    programs = [gen_ops(random.Random(desc['seed'] * 31 + t), dev, desc['ops'], v2, desc['misc_burst'] and t == 0)
                for t in range(desc['threads'])]
    # a (cmd, param) pair must be outstanding at most once over all threads
    seen = set()
    for prog in programs:
        for j, op in enumerate(prog):
            if op[0] in ('store', 'clear', 'state', 'default'):
                if (op[0], op[2]) in seen:
                    prog[j] = ('update', op[1])
                seen.add((op[0], op[2]))
    ob = {'calls': [], 'all': [], 'byname': {}, 'byname2': {}, 'byname3': {}, 'removed': {}, 'bygroup': {}, 'misc_cb': [], 'refused': [], 't0_rx': None,
          't0_tx': None, 'final_cache': None, 'problems': []}
    by_index = {i: p for i, p in enumerate(dev.params)}
    watch_names = ['%s.%s' % (p['g'], p['n']) for p in dev.params[::2]]
    watch_groups = sorted({p['g'] for p in dev.params[1::3]})

    import tempfile
    cache_dir = tempfile.mkdtemp(prefix='vf_c04_') if desc['seed'] % 3 == 2 else None

    def fn(s):
        dev.now = lambda: s.now
        cf = Crazyflie(rw_cache=cache_dir) if cache_dir else Crazyflie()
        done = ds.Event()
        cf.fully_connected.add_callback(lambda u: done.set())
        cf.connection_failed.add_callback(lambda *a: done.set())
        cf.open_link(uri)
        if not done.wait(600.0) or cf.param.is_updated is not True:
            ob['problems'].append('never fully connected')
            return
        if cache_dir:
            # the session under test takes its tables from the cache the first one filled (same or new Crazyflie object)
            s.sleep(0.2)
            cf.close_link()
            s.sleep(0.3)
            if desc['seed'] % 2 == 0:
                cf = Crazyflie(rw_cache=cache_dir)
                cf.fully_connected.add_callback(lambda u: done.set())
                cf.connection_failed.add_callback(lambda *a: done.set())
            done.clear()
            n_items = sum(1 for t in spec.tx if (t[2] >> 4) & 0xF == 2 and t[2] & 3 == 0 and t[3] and t[3][0] in (0, 2))
            cf.open_link(uri)
            if cf.link is not None and dev.params and (desc['seed'] // 3) % 2 == 0:
                # the firmware tells about a parameter changed on board right away - before the tables of this session are there
                h_, d_ = dev.value_updated_packet(desc['seed'] % len(dev.params))
                cf.link.inject(h_, d_, (0.0, 0.0005, 0.002)[(desc['seed'] // 6) % 3])
                ob['early_notification'] = True
            if not done.wait(600.0) or cf.param.is_updated is not True:
                ob['problems'].append('never fully connected (second session)')
                return
            if sum(1 for t in spec.tx if (t[2] >> 4) & 0xF == 2 and t[2] & 3 == 0 and t[3] and t[3][0] in (0, 2)) == n_items:
                ob['from_cache'] = True
        connecting['on'] = False
        s.sleep(0.2)
        ob['t0_rx'], ob['t0_tx'] = len(spec.rx), len(spec.tx)
        def on_any(n, v):
            ob['all'].append((n, v))
            # what a listener reads back from the library while it is being notified is the value it is notified of
            try:
                seen = cf.param.get_value(n)
            except Exception as e:  # noqa
                seen = 'raised %r' % (e,)
            ob['readback'] = ob.get('readback', 0) + 1
            if seen != v and len(ob['stale_readback']) < 4:
                ob['stale_readback'].append((n, v, seen))
        ob['stale_readback'] = []
        cf.param.add_update_callback(cb=on_any)
        for wn in watch_names:
            g, n = wn.split('.')
            ob['byname'][wn] = []
            cf.param.add_update_callback(group=g, name=n, cb=(lambda n_, v_, k=wn: ob['byname'][k].append((n_, v_))))
            # a second listener on the same parameter, and one registered after an earlier one was removed again
            ob['byname2'][wn] = []
            cf.param.add_update_callback(group=g, name=n, cb=(lambda n_, v_, k=wn: ob['byname2'][k].append((n_, v_))))
            ob['byname3'][wn] = []
            ob['removed'][wn] = []
            gone = (lambda n_, v_, k=wn: ob['removed'][k].append((n_, v_)))
            cf.param.add_update_callback(group=g, name=n, cb=gone)
            cf.param.remove_update_callback(group=g, name=n, cb=gone)
            cf.param.add_update_callback(group=g, name=n, cb=(lambda n_, v_, k=wn: ob['byname3'][k].append((n_, v_))))
        for g in watch_groups:
            ob['bygroup'][g] = []
            cf.param.add_update_callback(group=g, cb=(lambda n_, v_, k=g: ob['bygroup'][k].append((n_, v_))))

        def user(tid, prog):
            for j, op in enumerate(prog):
                uid = (tid, j)
                c0 = s.steps
                tx0 = len(spec.tx)
                kind = op[0]
                exc = None
                ret = None
                try:
                    if kind == 'set':
                        cf.param.set_value(op[1], op[2])
                    elif kind == 'update':
                        cf.param.request_param_update(op[1])
                    elif kind == 'get':
                        ret = cf.param.get_value(op[1])
                    elif kind == 'notify':
                        dev.params[op[1]]['v'] = op[2]
                        h, d = dev.value_updated_packet(op[1])
                        cf.link.inject(h, d, 0.0005)
                    elif kind == 'store':
                        cf.param.persistent_store(op[1], lambda n, r, u=uid: ob['misc_cb'].append((u, 'store', n, r)))
                    elif kind == 'clear':
                        cf.param.persistent_clear(op[1], lambda n, r, u=uid: ob['misc_cb'].append((u, 'clear', n, r)))
                    elif kind == 'state':
                        cf.param.persistent_get_state(op[1], lambda n, r, u=uid: ob['misc_cb'].append((u, 'state', n, r)))
                    elif kind == 'default':
                        if desc['misc_burst'] and j % 2 == 0:
                            # the completion callback asks again (an application retrying / polling from its callback)
                            uid2 = ('cb%d' % tid, j)

                            def again(n, r, u=uid, u2=uid2, name=op[1], idx=op[2]):
                                ob['misc_cb'].append((u, 'default', n, r))
                                ob['calls'].append({'uid': u2, 'op': ('default', name, idx), 'call': s.steps, 'ret': s.steps, 'exc': None,
                                                    'retval': None, 'tx_during': 0})
                                ob['reissued'] = ob.get('reissued', 0) + 1
                                cf.param.get_default_value(name, lambda n_, r_, u3=u2: ob['misc_cb'].append((u3, 'default', n_, r_)))
                            cf.param.get_default_value(op[1], again)
                        else:
                            cf.param.get_default_value(op[1], lambda n, r, u=uid: ob['misc_cb'].append((u, 'default', n, r)))
                except ds.SchedAbort:
                    raise
                except ds.ThreadKilled:
                    raise
                except Exception as e:  # noqa
                    exc = type(e).__name__
                ob['calls'].append({'uid': uid, 'op': op, 'call': c0, 'ret': s.steps, 'exc': exc, 'retval': ret,
                                    'tx_during': len(spec.tx) - tx0})
                if rnd.random() < 0.3:
                    s.sleep(rnd.choice((0.0, 0.001, 0.05)))
        ths = [threading.Thread(target=user, args=(t, programs[t])) for t in range(len(programs))]
        for t in ths:
            t.start()
        for t in ths:
            t.join()
        # quiesce: all queued requests answered
        total = sum(len(p) for p in programs)
        s.sleep(1.0 + total * (desc['maxdelay'] + 0.01) * 1.2)
        ob['final_cache'] = {g: dict(d) for g, d in cf.param.values.items()}
        ob['get_after'] = {}
        for p in dev.params:
            nm = '%s.%s' % (p['g'], p['n'])
            try:
                ob['get_after'][nm] = cf.param.get_value(nm)
            except Exception as e:  # noqa
                ob['get_after'][nm] = 'EXC:' + type(e).__name__
        ob['updater_alive'] = cf.param.param_updater.is_alive()
        ob['wait_lock_locked'] = cf.param.param_updater.wait_lock.locked()
        ob['queue_left'] = cf.param.param_updater.request_queue.qsize()
        cf.close_link()

    try:
        _, abort, s = harness.sched_case(fn, seed=desc['seed'], policy=desc['sched'], line_p=desc['line_p'],
                                         horizon=5000.0, max_steps=6_000_000)
    finally:
        if cache_dir:
            import shutil
            shutil.rmtree(cache_dir, ignore_errors=True)
    ctx.evals()
    if ob.get('from_cache'):
        ctx.count('mon.sessions_with_the_tables_taken_from_the_cache')
        if ob.get('early_notification'):
            ctx.count('mon.cached_sessions_with_a_change_notification_before_the_tables_are_there')
    rp = dict(desc)

    def V(mech, detail):
        ctx.violate(mech, detail, replay=rp)
    if abort is not None:
        V('param:hang:%s' % type(abort).__name__, {'abort': str(abort), 'threads': abort.table})
        return
    for (name, exc, tb) in s.deaths:
        V('param:thread-died:%s:%s' % (name.split('#')[0], exc.split('(')[0]), {'traceback': tb})
    if ob['problems']:
        V('param:' + ob['problems'][0].replace(' ', '-'), {})
        return
    if proto < 4:
        ctx.count('mon.v1_cases')
    if instant:
        ctx.count('mon.instant_reply_cases_with_statement_level_preemption')
    if desc['maxdelay'] >= 3.0:
        ctx.count('mon.cases_with_replies_delayed_by_seconds')
    ctx.count('mon.queries_reissued_from_their_own_callback', ob.get('reissued', 0))
    idfmt = '<H' if v2 else '<B'
    idlen = 2 if v2 else 1
    tx = [t for t in spec.tx[ob['t0_tx']:] if (t[2] >> 4) & 0xF == 2]
    rx = [r for r in spec.rx[ob['t0_rx']:] if (r[2] >> 4) & 0xF == 2]

    # ---- (1)+(3): writes on the wire vs accepted set_value calls
    wire_writes = [(struct.unpack(idfmt, t[3][:idlen])[0], t[3][idlen:]) for t in tx if t[2] & 3 == 2]
    exp_writes = []
    for c in ob['calls']:
        op = c['op']
        if op[0] != 'set':
            continue
        g_n = op[1]
        idx = next((i for i, p in by_index.items() if '%s.%s' % (p['g'], p['n']) == g_n), None)
        if idx is None or by_index[idx].get('ro'):
            ctx.count('mon.refused_checked')
            if c['exc'] is None:
                V('param:set-of-%s-parameter-not-refused' % ('unknown' if idx is None else 'read-only'), {'call': c})
            continue
        t = by_index[idx]['t']
        fmt = simcf.PARAM_TYPES[t][1]
        v = op[2]
        try:
            raw = struct.pack(fmt, float(v) if t in (6, 7) else int(v))
        except (struct.error, OverflowError):
            raw = None
        if raw is None:
            ctx.count('mon.refused_checked')
            if c['exc'] is None:
                V('param:out-of-range-value-not-refused', {'call': c, 'type': simcf.PARAM_TYPES[t][0]})
            continue
        if c['exc'] is not None:
            V('param:valid-set-raised', {'call': c})
            continue
        exp_writes.append((c['uid'], idx, raw))
    ctx.count('mon.writes_checked', len(exp_writes))
    from collections import Counter
    if Counter((i, bytes(r)) for (_, i, r) in exp_writes) != Counter((i, bytes(r)) for (i, r) in wire_writes):
        got = Counter((i, bytes(r)) for (i, r) in wire_writes)
        exp = Counter((i, bytes(r)) for (_, i, r) in exp_writes)
        V('param:write-requests-differ-from-accepted-set_value-calls',
          {'missing': [(i, r.hex()) for (i, r) in (exp - got)][:4], 'unexpected': [(i, r.hex()) for (i, r) in (got - exp)][:4]})

    # ---- (4) wire order: per-thread program order and real-time precedence, one outstanding
    def req_key(t):
        ch = t[2] & 3
        if ch == 3:
            return ('misc', t[3][0], struct.unpack('<H', t[3][1:3])[0])
        return ('read' if ch == 1 else 'write', struct.unpack(idfmt, t[3][:idlen])[0], bytes(t[3][idlen:]))
    wire = [req_key(t) for t in tx]
    issue = []     # (uid, key, call, ret)
    cmdno = {'store': 3, 'clear': 5, 'state': 4, 'default': 6}
    for c in ob['calls']:
        op = c['op']
        if c['exc'] is not None:
            if op[0] in ('store', 'clear', 'state') and by_index[op[2]].get('ext') and by_index[op[2]].get('pers'):
                # the device says this parameter is persistent and the connection is fully set up
                V('param:persistent-request-on-a-persistent-parameter-refused', {'call': c})
            continue
        if op[0] in ('store', 'clear', 'state') and by_index[op[2]].get('ext') and by_index[op[2]].get('pers'):
            ctx.count('mon.persistent_requests_accepted')
        if op[0] == 'set':
            e = [x for x in exp_writes if x[0] == c['uid']]
            if e:
                issue.append((c['uid'], ('write', e[0][1], bytes(e[0][2])), c['call'], c['ret']))
        elif op[0] == 'update':
            idx = next(i for i, p in by_index.items() if '%s.%s' % (p['g'], p['n']) == op[1])
            issue.append((c['uid'], ('read', idx, b''), c['call'], c['ret']))
        elif op[0] in cmdno:
            issue.append((c['uid'], ('misc', cmdno[op[0]], op[2]), c['call'], c['ret']))
    if Counter(k for (_, k, _, _) in issue) != Counter(wire):
        V('param:wire-requests-differ-from-issued-requests',
          {'issued': len(issue), 'on_wire': len(wire),
           'missing': [repr(k) for k in (Counter(k for (_, k, _, _) in issue) - Counter(wire))][:4],
           'extra': [repr(k) for k in (Counter(wire) - Counter(k for (_, k, _, _) in issue))][:4]})
    else:
        # assign wire positions greedily per key in order
        pos_lists = {}
        for i, k in enumerate(wire):
            pos_lists.setdefault(k, []).append(i)
        byuid = {}
        for (uid, k, c0, r0) in sorted(issue, key=lambda x: x[2]):
            if len(pos_lists[k]) == 1:      # identical requests are indistinguishable on the wire: skip them
                byuid[uid] = (pos_lists[k][0], c0, r0)
        items = sorted(byuid.items(), key=lambda kv: kv[1][1])
        npairs = 0
        for a in range(len(items)):
            for b in range(a + 1, min(len(items), a + 12)):
                (ua, (pa, ca, ra)), (ub, (pb, cb_, rb)) = items[a], items[b]
                if ua[0] == ub[0] or ra < cb_:
                    npairs += 1
                    if (ua[0] == ub[0] and ua[1] < ub[1] and pa > pb) or (ua[0] != ub[0] and ra < cb_ and pa > pb):
                        V('param:wire-order-violates-issue-order', {'first': ua, 'second': ub, 'wire_pos': (pa, pb)})
                        break
        ctx.count('mon.precedence_pairs', npairs)
    # one outstanding: between two consecutive updater requests the reply to the first was handed to the library
    ev = sorted([(t[5], 0, 'tx', t) for t in tx] + [(r[4], 1, 'rx', r) for r in rx if not (r[2] & 3 == 3 and r[3][0] == 1)],
                key=lambda x: x[0])
    outstanding = 0
    pairs = 0
    for (_, _, kind, pk) in ev:
        if kind == 'tx':
            if outstanding > 0:
                V('param:second-request-sent-before-first-was-answered', {'at': pk[0], 'request': pk[3].hex()})
                break
            outstanding += 1
            pairs += 1
        else:
            outstanding = max(0, outstanding - 1)
    ctx.count('mon.one_outstanding_pairs', pairs)

    # ---- (2)+(5): value replies on the wire == update callback invocations, in order, once each
    exp_updates = []
    for r in rx:
        ch = r[2] & 3
        d = r[3]
        if ch in (1, 2):
            idx = struct.unpack(idfmt, d[:idlen])[0]
            body = d[idlen:]
            if ch == 1 and v2:
                if body[0] != 0:
                    continue
                body = body[1:]
            p = by_index.get(idx)
            if p is None or len(body) != simcf.PARAM_TYPES[p['t']][2]:
                continue
            exp_updates.append((idx, struct.unpack(simcf.PARAM_TYPES[p['t']][1], body)[0]))
        elif ch == 3 and d[0] == 1:
            idx = struct.unpack('<H', d[1:3])[0]
            p = by_index[idx]
            exp_updates.append((idx, struct.unpack(simcf.PARAM_TYPES[p['t']][1], d[3:])[0]))
            ctx.count('mon.notifications')
    ctx.count('mon.value_replies', len(exp_updates))

    def check_stream(label, got, exp):
        ctx.count('mon.callback_invocations', len(got))
        if len(got) != len(exp):
            V('param:%s-callback-count-differs' % label, {'got': len(got), 'expected': len(exp), 'tail_got': got[-3:],
                                                         'tail_exp': [(by_index[i]['n'], v) for i, v in exp[-3:]]})
            return
        for (n_, vs), (idx, v) in zip(got, exp):
            p = by_index[idx]
            try:
                pv = _parse(vs, p['t'])
            except Exception:
                pv = None
            if n_ != '%s.%s' % (p['g'], p['n']) or pv is None or not _same(pv, v):
                V('param:%s-callback-value-or-name-differs' % label, {'got': (n_, vs), 'expected': (p['g'], p['n'], repr(v)),
                                                                     'type': simcf.PARAM_TYPES[p['t']][0]})
                return
    check_stream('all-params', ob['all'], exp_updates)
    ctx.count('mon.values_read_back_inside_an_update_callback', ob.get('readback', 0))
    ctx.count('mon.extended_type_answers_arriving_twice_during_set_up', connecting['dups'])
    if ob.get('stale_readback'):
        ctx.violate('param:get_value-inside-the-update-callback-differs-from-the-notified-value',
                    {'name_notified_read_back': ob['stale_readback']}, replay=rp)
    for wn, got in ob['byname'].items():
        check_stream('per-parameter', got, [(i, v) for (i, v) in exp_updates
                                            if '%s.%s' % (by_index[i]['g'], by_index[i]['n']) == wn])
    for key, label in (('byname2', 'second-per-parameter'), ('byname3', 'per-parameter-registered-after-a-removal')):
        for wn, got in ob[key].items():
            ctx.count('mon.additional_listeners_checked')
            check_stream(label, got, [(i, v) for (i, v) in exp_updates
                                      if '%s.%s' % (by_index[i]['g'], by_index[i]['n']) == wn])
    for wn, got in ob['removed'].items():
        if got:
            V('param:removed-callback-still-called', {'param': wn, 'calls': got[:3]})
    for g, got in ob['bygroup'].items():
        check_stream('per-group', got, [(i, v) for (i, v) in exp_updates if by_index[i]['g'] == g])
    # final cache / get_value == last value the device reported for each parameter
    last = {}
    for (i, v) in exp_updates:
        last[i] = v
    for i, v in last.items():
        p = by_index[i]
        s_ = (ob['final_cache'] or {}).get(p['g'], {}).get(p['n'])
        ga = ob['get_after'].get('%s.%s' % (p['g'], p['n']))
        try:
            ok = _same(_parse(s_, p['t']), v) and ga == s_
        except Exception:
            ok = False
        if not ok:
            V('param:cached-value-differs-from-device-value', {'param': (p['g'], p['n']), 'cached': s_, 'get_value': ga,
                                                               'device': repr(v), 'type': simcf.PARAM_TYPES[p['t']][0]})
            break
    # get_value of unknown name raises
    for c in ob['calls']:
        if c['op'][0] == 'get' and c['exc'] is not None:
            V('param:get_value-of-known-parameter-raised', {'call': c})

    # ---- misc replies: exactly the callback of the request they answer
    exp_misc = []
    nmisc_req = 0
    for r in rx:
        if r[2] & 3 != 3 or r[3][0] not in (3, 4, 5, 6):
            continue
        d = r[3]
        cmd, idx = d[0], struct.unpack('<H', d[1:3])[0]
        p = by_index[idx]
        fmt, size = simcf.PARAM_TYPES[p['t']][1], simcf.PARAM_TYPES[p['t']][2]
        name = '%s.%s' % (p['g'], p['n'])
        if cmd in (3, 5):
            res = [d[3] == 0]
        elif cmd == 4:
            if d[3] == simcf.ENOENT and len(d) == 4:
                res = [('state-enoent',)]
                ctx.count('mon.state_queries_answered_enoent')
            elif d[3] == 0:
                res = [('state', False, struct.unpack(fmt, d[4:4 + size])[0], None)]
            else:
                res = [('state', True, struct.unpack(fmt, d[4:4 + size])[0], struct.unpack(fmt, d[4 + size:4 + 2 * size])[0])]
        else:
            val = struct.unpack(fmt, d[3:3 + size])[0]
            res = [val] + ([None] if d[3] == 2 else [])
        exp_misc.append(({3: 'store', 5: 'clear', 4: 'state', 6: 'default'}[cmd], name, res))
        nmisc_req += 1
    ctx.count('mon.misc_replies', len(exp_misc))
    if desc['misc_burst'] and v2 and len(exp_misc) >= 2:
        ctx.count('mon.multi_outstanding_misc_cases')
    got_misc = list(ob['misc_cb'])
    uid2op = {c['uid']: c['op'] for c in ob['calls']}
    ok = len(got_misc) == len(exp_misc)
    if ok:
        for (u, kind, n_, r_), (ek, en, eres) in zip(got_misc, exp_misc):
            if kind != ek or n_ != en or uid2op[u][1] != en:
                ok = False
                break
            if kind == 'state' and eres[0] == ('state-enoent',):
                if r_ is not None:
                    ok = False
                    break
            elif kind == 'state':
                tup = eres[0]
                if r_ is None or not (r_.is_stored == tup[1] and _same(r_.default_value, tup[2]) and
                                      (_same(r_.stored_value, tup[3]) if tup[3] is not None else r_.stored_value is None)):
                    ok = False
                    break
            elif not any((_same(r_, e) if e is not None and r_ is not None else r_ is e) for e in eres):
                ok = False
                break
    if not ok:
        V('param:misc-reply-not-delivered-exactly-once-to-its-request',
          {'callbacks': [(u, k, n_, repr(r_)) for (u, k, n_, r_) in got_misc][:8],
           'replies': [(k, n_, repr(r_)) for (k, n_, r_) in exp_misc][:8]})
    if ob.get('updater_alive') is False or ob.get('wait_lock_locked') or ob.get('queue_left'):
        V('param:updater-not-idle-after-all-replies', {k: ob.get(k) for k in ('updater_alive', 'wait_lock_locked', 'queue_left')})
    if exp_updates:
        ctx.nontrivial((core.h64(programs), core.h64([(r[2], r[3].hex()) for r in rx])))
    ctx.sample({'proto': proto, 'threads': len(programs), 'program_of_thread_0': programs[0][:6],
                'port2_requests': len(tx), 'port2_replies': len(rx), 'value_replies': len(exp_updates),
                'misc_replies': len(exp_misc), 'sched': desc['sched'], 'steps': s.steps})
