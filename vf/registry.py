"""Single source of truth for MANIFEST.json (tools/gen_manifest.py writes it)."""

BASELINE_CMD = ('cd /repo && /venv/bin/python -m pytest -ra -q -p no:cacheprovider --timeout=900 '
                '--continue-on-collection-errors')

ALL = ['C%02d' % i for i in range(1, 21)]

# id -> dict(level, text, note, technique, engine, design)
CHECKS = {
    'C13': dict(
        level='exploration',
        text=('Return values of the real codec functions are compared with independent references: all 65 536 '
              'half-precision patterns (exhaustive, twice: unsigned and int16 form), >1e5 quaternions (grid, ties, '
              'scaled, random), trajectory fixed-point boundaries, every LED level x intensity, and generated range / '
              'LH-angle packets through Localization._incoming with an icontract postcondition on its fp16 alias. '
              'Exhaustive where the space is finite, sampled elsewhere; held means no monitored call deviated.'),
        note='numpy.float16 and struct are the trusted references; LED byte layout taken from the firmware reader.',
        technique='runtime oracle on return values (reference model + icontract postcondition), exhaustive fp16 sweep',
        engine='codec-oracles', design='DESIGN.md §3 C13'),
    'C03': dict(
        level='exploration',
        text=('The real connection sequence (Crazyflie.open_link over the sim:// driver, all library threads real, run '
              'by the deterministic scheduler) downloads generated device tables: sizes 0..400 across the 8-bit '
              'boundary, both protocol generations, ISO-8859-1 names at the packet limit, under six reply policies '
              '(in-order, duplicates, delayed duplicates, delays, lossy link with retry timers, stale replies and '
              'stale fetchers of an aborted earlier session). A monitor on `connected` snapshots both tables and '
              'probes all four lookup paths; the oracle is the simulated device. Sampled, not exhaustive.'),
        note='Trusts the simulated device model (written from the firmware TOC protocol) and the scheduler shims.',
        technique='trace monitor at the connected callback vs. device ground truth, under a deterministic thread scheduler',
        engine='detsched+simcf', design='DESIGN.md §3 C03'),
    'C02': dict(
        level='fault_enumeration',
        text=('Every public lifecycle Caller of a real Crazyflie (and the blocking SyncCrazyflie calls) is recorded while '
              'the real library threads run under the deterministic scheduler against the simulated device. For each '
              'device profile, api (sync/async), trigger (link error at the k-th sent packet, after the k-th received '
              'packet, close_link from a user thread when k packets were sent, close_link from inside a lifecycle '
              'callback), reporter (driver thread / sending thread) the trigger position k is enumerated over the whole '
              'fault-free handshake, under run-to-block, random, PCT and line-pre-empting schedules, each followed by a '
              'healthy reconnect on the same object. The trace specification R1-R9 judges the observed event sequence; '
              'hangs are scheduler deadlock / virtual-time-horizon verdicts with the blocked-thread table as witness.'),
        note=('Fault positions are exhaustive per profile; schedules are sampled. Bounded time = 150 virtual seconds per '
              'blocking call. One open known finding (unsynchronised dispatch vs. disconnect) masks anomalies only in runs '
              'where its precondition was observed by a detector.'),
        technique='online trace specification over recorded lifecycle events; deadlock/horizon detection by a deterministic scheduler; fault-position enumeration',
        engine='detsched+simcf', design='DESIGN.md §3 C02'),
    'C07': dict(
        level='exploration',
        text=('The real _IncomingPacketHandler.run() is pumped in the harness thread with scripted packets. Instrumented '
              'callbacks log every delivery and execute mutation scripts (remove self/earlier/later, add, add-then-remove, '
              'raise) during dispatch; an independent matcher and must/may/must-not sets computed from the table at the '
              'start of each dispatch judge the log. All 256 header bytes, random registration tables over all masks, and '
              'Caller.add/remove/call under the same scripts.'),
        note='Single-threaded by construction (dispatch is single-threaded in the library); matching rule as stated in the property.',
        technique='offline checker over a delivery log against an independent reference matcher (pump mode)',
        engine='pump', design='DESIGN.md §3 C07'),
    'C04': dict(
        level='exploration',
        text=('1..4 user threads run generated programs of set_value / request_param_update / get_value / persistent_* / '
              'get_default_value (plus injected value-updated notifications) against a connected real Crazyflie under the '
              'deterministic scheduler, with reply delays up to 0.5 virtual seconds. Monitors: port-2 packets at the device, '
              'scheduler-step stamped call/return of every operation, every update/persistent/default callback. Oracles: '
              'reference encoding of each accepted write (all 10 types, boundary and out-of-range values), refusal without '
              'transmission, sequence equality between value replies on the wire and callback invocations (all / group / '
              'parameter), final cache == last device value, one-outstanding and issue-order over the wire log, exact '
              'attribution of misc replies with several queries outstanding.'),
        note='Sampled programs and schedules; each (misc command, parameter) pair outstanding at most once; needs_resending off.',
        technique='offline checker over wire log + operation history + callback log (ordering, exactly-once, conservation) under a deterministic scheduler',
        engine='detsched+simcf', design='DESIGN.md §3 C04'),
    'C06': dict(
        level='fault_enumeration',
        text=('Histories of up to 6 reads and queued writes (every chunk-boundary length, flush_queue, memories with random '
              'images incl. one mapped at the top of the 32-bit address space and devices with up to 200 memories) run '
              'through the real Memory subsystem under the deterministic scheduler. Fault scripts: every reply duplicated '
              '(immediately / delayed), error status on the k-th chunk and link drop after the k-th packet for every k of the '
              'history (reported by the driver thread or the sending thread), lossy link with retry timers. Monitors compare '
              'read results and the device image with the reference, check protocol limits and chunk contiguity on the wire, '
              'account exactly one completion per non-superseded request, and probe that a read and a write are still served '
              'afterwards (after reconnecting if the link was dropped).'),
        note='Fault positions enumerated per history (capped at 6/14 per tier); histories and schedules sampled.',
        technique='offline checker over wire log, completion log and device memory image (conservation, exactly-once, ordering); fault-position enumeration under a deterministic scheduler',
        engine='detsched+simcf', design='DESIGN.md §3 C06'),
    'C11': dict(
        level='fault_enumeration',
        text=('Real connections against the simulated device with real cache directories (tempfile). Per case the cache is '
              'populated by a download, a fresh Crazyflie re-connects through it, and the tables at `connected` plus the '
              'device-side view (were item requests sent) are compared with the device tables. Every written cache file is '
              'then cut at EVERY byte offset and TocCache.fetch must miss; connections are repeated on sampled offsets and '
              'on randomly garbled files; CRC values 0 / 0xFFFFFFFF / log==param collision; directory configurations none, '
              'ro, rw, ro+rw, corrupt ro + rw, stale ro + rw. A sys.addaudithook monitor and directory hashes decide that '
              'the read-only directory is never written.'),
        note='Crash model = prefix of the intended file. Semantically valid but wrong JSON is outside the statement.',
        technique='crash-point enumeration over cache-file prefixes + audit-hook file-system monitor + table oracle at connected',
        engine='detsched+simcf', design='DESIGN.md §3 C11'),
    'C05': dict(
        level='exploration',
        text=('Generated log configurations (0..26 variables over all 8 fetch types, default and explicit types, raw-memory '
              'variables, payload 0..30 bytes around the 26-byte limit, periods 0..3000 ms) are added, started, stopped, '
              'deleted and re-added after a reconnect on a real connected Crazyflie. Monitors: acceptance vs. the reference '
              'rule and zero packets for rejected ones; the create/append packets seen by the device decoded with the '
              'firmware rule against the variable list; data packets encoded by the device from what it parsed (extreme '
              'values, every fetch type incl. FP16, 24-bit timestamps) against data_received_cb; added/started flags and '
              'callbacks against the acknowledgement sequence with injected device errors; SyncLogger iteration in a '
              'consumer thread ending at disconnect.'),
        note='One open known finding (raw-memory variables). Histories are the four fixed shapes x generated configurations.',
        technique='wire-log decoder oracle + callback log checker + flag state machine monitor under a deterministic scheduler',
        engine='detsched+simcf', design='DESIGN.md §3 C05'),
    'C10': dict(
        level='fault_enumeration',
        text=('Requests with expected-reply patterns (shared prefixes of length 1..4, timeouts 0.05/0.2/1.0 s) are sent through '
              'the real Crazyflie.send_packet to a scripted responder behind the sim:// link while the library\'s real Timer '
              'threads run on the virtual clock. Per request the first m transmissions and first r replies are lost and the '
              'reply delay is taken from a grid around the timer instants; close_link/reopen happen at every quarter period '
              'around pending timers; reliable links are run as the negative case. A reference model of the retry rule '
              '(period T, cancelled by the packet whose longest pending prefix is the pattern) gives the exact set of expected '
              'retransmission instants; the wire log with virtual timestamps is compared against it, and against '
              '"nothing after close" and "nothing of session i in session j".'),
        note='Exact-time comparison is sound because processing takes zero virtual time; equal-instant ties are may-events.',
        technique='virtual-time trace checker against a reference retry model; timer monitor; fault-script enumeration',
        engine='detsched+simcf', design='DESIGN.md §3 C10'),
    'C09': dict(
        level='exploration',
        text=('Generated rooms with known ground truth (2..6 base stations, arbitrary ids, full and partial visibility chains, '
              '3..40 Crazyflie poses) are turned into exact time-stamped sweep-angle measurements (shuffled within each time '
              'group) and fed through the real matcher -> initial estimator -> geometry solver. The monitor compares every '
              'returned base-station and Crazyflie pose with the generating pose expressed in the frame of the first matched '
              'sample (1 mm / 1 mrad), the matcher groups with the generated time groups, and requires LhException for '
              'constellations whose visibility graph is disconnected. Measured errors are reported in the evidence samples.'),
        note='Sampled rooms inside the stated envelope; numpy/scipy trusted.',
        technique='ground-truth oracle on the outputs of the real estimation pipeline over generated rooms',
        engine='lighthouse-oracles', design='DESIGN.md §3 C09'),
    'C15': dict(
        level='exploration',
        text=('Return values of the real conversion functions over ~2e5 (thorough 2e6) directions inside +-80/+-55 degrees '
              '(5-degree boundary grid + random): V1->V2->V1, V1->cart->V1, V1->projection->V1 round trips, unit norm, and an '
              'independent tilted-light-plane equation for both V2 sweeps; rigid-motion laws on random / identity / half-turn / '
              '1e-9 rad poses (inverse, associativity, sequential application, matrix / rotation-vector / quaternion views, '
              'orthonormality); the geometry solver\'s vectorised _calc_angle_pairs against the projection defined by Pose and '
              'LighthouseBsVector incl. exactly-zero rotation vectors; IPPE axis permutation.'),
        note='Tolerances: 1e-6 rad for float32-limited paths, 1e-9 for float64 laws; measured worst values are in the evidence.',
        technique='round-trip and algebraic-law oracles with independent reference computations on return values',
        engine='lighthouse-oracles', design='DESIGN.md §3 C15'),
    'C16': dict(
        level='exploration',
        text=('Generated systems with a known misalignment (0..30 degrees incl. a dense 25-30 band, <=3 m, optional half '
              'turns about Z/X = the mirror cases, 1..3 x-axis and 1..4 plane reference points, noise 0/1/5 mm) go through the '
              'real aligner; monitors require one proper rigid transformation for all base stations (pairwise distances and '
              'relative rotations), the images of the reference points on the axes, first base station above the floor, '
              'equality with the generating inverse transform when noise-free, and untouched inputs. Both scaling modes are '
              'run on systems shrunk by a known factor 0.2..5: uniform factor, bit-identical rotations, recovered factor.'),
        note='Noise-free exactness tolerance 1e-4; diagonal scaling limited to 2e-4 by float32 direction vectors.',
        technique='ground-truth oracle on aligner / scaler outputs, rigidity invariants, input-immutability monitor',
        engine='lighthouse-oracles', design='DESIGN.md §3 C16'),
    'C08': dict(
        level='exploration',
        text=('Every command API (RPYT, velocity-world, z-distance, hover, position, full-state, stop, notify-stop, HL take-off/'
              'land/stop/go-to/spiral/define/start/group-mask, ext-pos, ext-pose, emergency stop + watchdog, LH persist, arming, '
              'crash recovery, continuous wave, LPP short packets) is called with generated arguments through the real '
              'Crazyflie.send_packet onto a recording link, under protocol versions on both sides of every legacy switch and '
              'X-mode on/off. One capture window per call; the packet is decoded by an independent reference decoder of the '
              'firmware struct and must give back the arguments (float32 bit-exact, fixed point within one unit, documented '
              'sign conventions and saturations); unrepresentable arguments must raise with nothing sent. All 16x4 headers.'),
        note='Reference decoders written from the firmware structs; see assumptions in the evidence file.',
        technique='reference-decoder oracle on packets captured at the link boundary',
        engine='codec-oracles', design='DESIGN.md §3 C08'),
    'C12': dict(
        level='fault_enumeration',
        text=('The real Bootloader._internal_flash and Cloader.upload_buffer/write_flash run against a simulated bootloader '
              'target (RAM buffer + flash array) whose geometry is reported through the real info parse. Enumerated: page size x '
              'buffer pages x flash pages x every start page (and page override) x image lengths around every page / buffer / '
              'capacity multiple, both targets, realistic 1024-byte-page geometries; reply scripts = all combinations of '
              '{answer, reply lost, request lost, negative} over the first attempts of the first three flash-write commands with '
              'and without a permanently lost tail. Monitors: flash == image over the range and untouched elsewhere, frame <= 32 '
              'bytes, buffer tiles cover every byte exactly once, refusal before any packet when it does not fit, <= 6 '
              'transmissions per command, nothing sent after an abort.'),
        note='Small geometries enumerated (sampled subset in quick), realistic ones at boundary lengths.',
        technique='device-model monitor over packet log and flash image; reply-fault enumeration',
        engine='codec-oracles', design='DESIGN.md §3 C12'),
    'C14': dict(
        level='exploration',
        text=('The real memory classes run against a byte-array memory handler: EEPROM v0/v1 images for all field values are '
              'compared with the reference layout, parsed back, and every single-byte corruption (each offset x 3 values) must '
              'give valid == recomputed checksum; 1-wire images for every subset/order of element kinds and every element-area '
              'length that fits 112 bytes (ISO-8859-1) likewise with CRC corruptions; lighthouse geometry/calibration memory '
              'layout, addresses and round trip; YAML round trips of LighthouseConfigFileManager (any subset of ids, invalid '
              'entries omitted) and ParamFileManager in temp files; Poly4D / compressed trajectory / LED-timing write layouts; '
              'deck-memory info sections over all bit fields and Loco / Loco2 anchor lists parsed to the encoded fields.'),
        note='Reference layouts in vf/refcodec.py and struct; corruptions that make a device read run past the 1-wire memory are not generated.',
        technique='reference-encoder / decoder oracles on images captured at a byte-array memory handler; corruption sweep',
        engine='codec-oracles', design='DESIGN.md §3 C14'),
    'C01': dict(
        level='fault_enumeration',
        text=('The real _RadioDriverThread (layer A) and the whole RadioDriver/RadioManager/_SharedRadio/Crazyradio stack over a '
              'fake USB dongle (layer B) run under the deterministic scheduler against an independent model of the Crazyflie\'s '
              'ESB safelink peer. Every transmission consumes one scripted outcome (acked / uplink lost / ack lost): ALL words '
              'up to length 5 (quick) / 7 (thorough) with sampled submission schedules, random and bursty words up to 2000 '
              'transmissions with 1..3 submitter threads, every number 0..10 of lost negotiation exchanges, peers without '
              'safelink or echoing garbage. Monitors: frames accepted by the peer == packets accepted by send_packet (order, '
              'once), packets returned by receive_packet == packets the peer dequeued, link error at exactly the N-th '
              'consecutive unacknowledged transmission (N in 2,3,5,100), sequence bits only after a confirmed echo, '
              'needs_resending consistent, drained after losses stop.'),
        note='Outcome words exhaustive to the stated length; submission positions, schedules and long words sampled. ARC retries of the dongle are not modelled separately.',
        technique='peer-model monitor over the frame log (exactly-once / ordering / alternating-bit conformance); fault-word enumeration under a deterministic scheduler',
        engine='detsched+radiosim', design='DESIGN.md §3 C01'),
    'C18': dict(
        level='exploration',
        text=('CPXPacket encode/decode for all targets x functions x flag x boundary payload lengths against the reference '
              'layout and rejection of versions 1..3; SocketTransport.readPacket over a scripted in-memory socket for streams of '
              '1..4 packets (<=14 bytes) under ALL 2^(B-1) cut patterns and long streams under dribble / random / '
              'inside-the-length-prefix cuts; CPXRouter, TcpDriver and SerialDriver (fake serial module with the UART '
              'flow-control handshake) running their real threads under the deterministic scheduler: per-function arrival '
              'order, and CRTP packets with every payload length 0..30 unchanged in both directions.'),
        note='Receive-side fragmentation only (socket.send is assumed to take the whole buffer); queues created before packets arrive.',
        technique='reference-codec oracle + exhaustive fragmentation sweep on a scripted socket; thread-level monitors under a deterministic scheduler',
        engine='codec-oracles', design='DESIGN.md §3 C18'),
    'C20': dict(
        level='exploration',
        text=('RadioDriver.parse_uri against a reference parser over generated well-formed radio URIs (dongle ids and serials, '
              'channels 0..125, three rates, 1..10 hex digits either case, rate_limit and other query options, every prefix of '
              'omitted trailing fields) and malformed / foreign ones; RadioDriver.connect over RadioManager/_SharedRadio/'
              'Crazyradio and ten fake USB dongles must transmit only on the selected dongle with exactly the parsed channel, '
              'rate and address bytes; scan_interface over a fake radio must report exactly the present Crazyflies with URIs '
              'that parse back; every scheme is offered to every driver class (hardware / network layers faked, audit hook '
              'guarding against real sockets) and must be claimed by exactly one or by none; open_link on unusable URIs must '
              'give connection_requested + one connection_failed, nothing escaping, and a healthy connect afterwards.'),
        note='Fake layers stand in for USB, sockets and serial ports; the prrt driver is claimed-but-unavailable in this sandbox.',
        technique='reference-parser oracle + settings monitor at a fake USB device + driver-dispatch census',
        engine='detsched+radiosim', design='DESIGN.md §3 C20'),
    'C17': dict(
        level='exploration',
        text=('Generated programs of up to 10 motion primitives (all directions, move_distance, turns, circles, start_*/stop '
              'with dwell, go_to, default changes) run through the real MotionCommander (with its _SetPointThread) and '
              'PositionHlCommander under the deterministic scheduler in virtual time on a recording stub Crazyflie, as context '
              'manager or explicit take_off/land, with or without an exception raised at a random position of the body, under '
              'three schedules each. Monitors: last commander calls are stop then notify-stop (HL: land then stop), nothing '
              'streamed for 5 further virtual seconds, setpoint thread terminated; hover setpoints at most one period apart, '
              'their velocity equal to the commanded timeline and their height equal to the integral of the commanded vertical '
              'velocity (1e-9); integrated commanded velocity x duration == requested displacement / angle per primitive; HL '
              'position == start + sum of displacements and every go_to / take-off / land argument against a reference.'),
        note='Virtual time makes instants exact; programs stay above the landing height (physical flights).',
        technique='virtual-time trace checker over recorded commander calls against a reference motion model',
        engine='detsched', design='DESIGN.md §3 C17'),
    'C19': dict(
        level='exploration',
        text=('The real Swarm runs its member threads under the deterministic scheduler with an instrumented member factory: '
              'for sizes 1..6, ALL subsets of members whose action raises (n<=5) and ALL subsets whose open_link fails (n<=4), '
              'random argument dictionaries and actions that yield at random points, 16/64 schedules per configuration. '
              'Monitors: each action once per member with that member and its own arguments; sequential in URI order with '
              'disjoint intervals; parallel_safe returns after every action ended, raises iff one raised and chains one of the '
              'raised errors; parallel never raises; failed open closes every link, raises and leaves the swarm closed; second '
              'open raises. A subset uses real SyncCrazyflie members over sim:// links incl. an unreachable one. An overlap part keeps '
              'two swarm-wide steps in flight on one Swarm (nested in an action, two caller threads) and judges each call on its own actions.'),
        note='Failure subsets exhaustive to the stated sizes; schedules sampled.',
        technique='call-log checker (exactly-once, ordering, error chaining) over enumerated failure subsets under a deterministic scheduler',
        engine='detsched', design='DESIGN.md §3 C19'),
}

PENDING_REASON = ('check not built yet in this work session (design in DESIGN.md §3); nothing is claimed for it '
                  'until its monitor has run clean on the unchanged tree')

NOT_APPLICABLE = {}


def manifest():
    checks = []
    for pid in ALL:
        c = CHECKS.get(pid)
        if not c:
            continue
        checks.append({
            'property_id': pid,
            'quick_cmd': './check %s quick' % pid,
            'thorough_cmd': './check %s thorough' % pid,
            'evidence_file': 'evidence/%s.json' % pid,
            'replay_cmd_template': './check %s --replay {path}' % pid,
            'engine': c['engine'],
            'level_claimed': {'category': c['level'], 'text': c['text'], 'design_ref': c['design']},
            'level_note': c['note'],
            'technique': c['technique'],
        })
    na = []
    for pid in ALL:
        if pid in CHECKS:
            continue
        na.append({'property_id': pid, 'reason': NOT_APPLICABLE.get(pid, PENDING_REASON)})
    return {
        'version': 1,
        'setup_cmd': './setup.sh',
        'hooks': {
            'guard': 'CFLIB_VERIF',
            'enable': ('no source hook is compiled into cflib: ./check sets CFLIB_VERIF=1 for its worker processes and '
                       'attaches all instrumentation from the harness after import (module-global substitution, '
                       'class-method wrapping, sys.monitoring, icontract)'),
            'baseline_off_cmd': BASELINE_CMD,
            'source_commits': [],
            'add_only': True,
        },
        'engines': [
            {'name': 'codec-oracles', 'path': 'vf/checks', 'serves_properties': [p for p in ('C08', 'C12', 'C13', 'C14', 'C18', 'C20') if p in CHECKS],
             'kind_free_text': 'independent reference computations judged against return values of the real functions'},
            {'name': 'lighthouse-oracles', 'path': 'vf/lhgen.py, vf/checks/c09.py c15.py c16.py',
             'serves_properties': [p for p in ('C09', 'C15', 'C16') if p in CHECKS],
             'kind_free_text': 'room / pose generators with ground truth and independent numpy reference computations'},
            {'name': 'detsched+radiosim', 'path': 'vf/detsched.py, vf/radiosim.py', 'serves_properties': ['C01', 'C20'],
             'kind_free_text': 'deterministic scheduler + ESB safelink peer model + fake Crazyradio USB device'},
            {'name': 'detsched', 'path': 'vf/detsched.py', 'serves_properties': ['C17', 'C19'],
             'kind_free_text': 'deterministic scheduler + virtual clock over the helpers\' real threads, recording stubs'},
            {'name': 'pump', 'path': 'vf/checks/c07.py', 'serves_properties': ['C07'],
             'kind_free_text': 'the dispatcher loop run in the harness thread over a scripted link (no scheduler)'},
            {'name': 'detsched+simcf', 'path': 'vf/detsched.py, vf/simcf.py, vf/simlink.py',
             'serves_properties': [p for p in ('C02', 'C03', 'C04', 'C05', 'C06', 'C10', 'C11') if p in CHECKS],
             'kind_free_text': ('deterministic baton-passing scheduler with a virtual clock over the library\'s real '
                                'threads + simulated Crazyflie behind a sim:// CRTP driver; monitors at callbacks, '
                                'wire and device state')},
        ],
        'checks': checks,
        'not_applicable': na,
        'notes': ('Technique family: runtime monitoring. ./check <ID> <tier> runs the real library from /repo (or '
                  '$VERIF_REPO) in worker subprocesses; exit 0 held, 1 violation (VIOLATION line + replay file), '
                  '3 inconclusive (a deciding monitor was never reached or a worker hung). Known findings: '
                  'known_findings.json.'),
    }
