#!/venv/bin/python
"""Self-test of the checks by mutation.

For every mutant in selftest/mutants.py: create a scratch copy of /repo's HEAD outside /repo and
/verif, apply the textual change, (optionally) run the repository's own tests on the copy, run the
property's quick check with VERIF_REPO=<copy> and require a VIOLATION (exit 1).  Evidence and replays
of these runs go to a scratch directory; the copy is removed afterwards.

usage: selftest/run_mutants.py [--tests] [--tier quick|thorough] [--only SUBSTR] [--jobs N]
"""
import concurrent.futures
import json
import os
import shutil
import subprocess
import sys
import tempfile

HERE = os.path.dirname(os.path.abspath(__file__))
VERIF = os.path.dirname(HERE)
sys.path.insert(0, HERE)
from mutants import MUTANTS  # noqa


def run_one(m, tier, with_tests):
    mid, prop, path, old, new, needs = m
    base = tempfile.mkdtemp(prefix='vf_mut_')
    copy = os.path.join(base, 'repo')
    res = {'id': mid, 'property': prop, 'needs': needs}
    try:
        subprocess.run(['git', '-C', '/repo', 'worktree', 'add', '-q', '--detach', copy, 'HEAD'], check=True,
                       stdout=subprocess.DEVNULL, stderr=subprocess.DEVNULL)
        p = os.path.join(copy, path)
        src = open(p).read()
        if src.count(old) != 1:
            res['status'] = 'NOT-APPLICABLE (pattern found %d times)' % src.count(old)
            return res
        open(p, 'w').write(src.replace(old, new))
        env = dict(os.environ, PYTHONPATH=copy, PYTHONDONTWRITEBYTECODE='1')
        if with_tests:
            t = subprocess.run(['/venv/bin/python', '-m', 'pytest', '-q', '-p', 'no:cacheprovider', '-x', 'test'], cwd=copy, env=env,
                               stdout=subprocess.PIPE, stderr=subprocess.STDOUT, timeout=600)
            res['tests'] = t.stdout.decode().strip().splitlines()[-1][:80]
            res['tests_pass'] = t.returncode == 0
        env2 = dict(os.environ, VERIF_REPO=copy, VERIF_EVIDENCE_DIR=os.path.join(base, 'ev'), VERIF_REPLAY_DIR=os.path.join(base, 'rp'),
                    VERIF_JOBS=os.environ.get('VERIF_MUT_JOBS', '4'))
        c = subprocess.run([os.path.join(VERIF, 'check'), prop, tier], cwd=VERIF, env=env2, stdout=subprocess.PIPE,
                           stderr=subprocess.STDOUT, timeout=3600)
        out = c.stdout.decode()
        mechs = sorted({ln.split('mech=')[1] for ln in out.splitlines() if ln.startswith('VIOLATION') and 'mech=' in ln})
        res['exit'] = c.returncode
        res['mechs'] = mechs[:4]
        res['status'] = 'CAUGHT' if c.returncode == 1 and mechs else ('INCONCLUSIVE' if c.returncode == 3 else 'MISSED')
    except Exception as e:  # noqa
        res['status'] = 'ERROR %r' % e
    finally:
        subprocess.run(['git', '-C', '/repo', 'worktree', 'remove', '--force', copy], stdout=subprocess.DEVNULL, stderr=subprocess.DEVNULL)
        shutil.rmtree(base, ignore_errors=True)
    return res


def main():
    args = sys.argv[1:]
    tier = 'quick'
    only = None
    jobs = 4
    with_tests = '--tests' in args
    if '--tier' in args:
        tier = args[args.index('--tier') + 1]
    if '--only' in args:
        only = args[args.index('--only') + 1]
    if '--jobs' in args:
        jobs = int(args[args.index('--jobs') + 1])
    ms = [m for m in MUTANTS if only is None or only in m[0]]
    results = []
    with concurrent.futures.ThreadPoolExecutor(max_workers=jobs) as ex:
        for r in ex.map(lambda m: run_one(m, tier, with_tests), ms):
            results.append(r)
            print('%-38s %-4s %-12s %s %s' % (r['id'], r['property'], r['status'], r.get('tests', ''), ' | '.join(r.get('mechs', []))[:150]), flush=True)
    out = os.path.join(HERE, 'results_%s%s.json' % (tier, '' if only is None else '_partial'))
    with open(out, 'w') as f:
        json.dump(results, f, indent=1)
    missed = [r['id'] for r in results if r['status'] != 'CAUGHT' and not r['status'].startswith('NOT-APPLICABLE')]
    print('%d mutants, %d caught, not caught: %s' % (len(results), sum(1 for r in results if r['status'] == 'CAUGHT'), missed))
    return 0


if __name__ == '__main__':
    sys.exit(main())
