#!/bin/sh
# Offline setup: runtime-contract library next to the repository's interpreter.
cd "$(dirname "$0")" || exit 2
set -e
if [ ! -d .deps/icontract ]; then
  PIP_NO_INDEX=1 /venv/bin/pip install --quiet --no-index --find-links /opt/veriftools/wheels \
      --target .deps icontract
fi
PYTHONPATH="$(pwd)" /venv/bin/python - <<'PY'
from vf import core
core.setup_path()
core.assert_repo_resolution()
import icontract
print('setup ok: cflib from', core.REPO, 'icontract', icontract.__version__)
PY
